//! Known-findings file: committed, never written at run time.
//!
//! Lines:
//!   known: property=<id> signature=<signature> <what fails>
//!   fixed: property=<id> <commit> <what failed>        (suppresses nothing)

use crate::runner::verif_dir;

pub fn lookup(property: &str, signature: &str) -> Option<String> {
    let text = std::fs::read_to_string(verif_dir().join("KNOWN_FINDINGS.txt")).ok()?;
    for line in text.lines() {
        let line = line.trim();
        let Some(rest) = line.strip_prefix("known:") else {
            continue;
        };
        let mut prop = None;
        let mut sig = None;
        let mut text = Vec::new();
        for tok in rest.split_whitespace() {
            if let Some(p) = tok.strip_prefix("property=") {
                prop = Some(p);
            } else if let Some(s) = tok.strip_prefix("signature=") {
                sig = Some(s);
            } else {
                text.push(tok);
            }
        }
        if prop == Some(property) && sig == Some(signature) {
            return Some(text.join(" "));
        }
    }
    None
}
