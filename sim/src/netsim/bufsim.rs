//! `IpDefragBuf` driven directly (no slicer, no pool) with fragment
//! histories, in lock-step with one reference stream.

use super::model::*;
use crate::json::{hex, unhex, J};
use crate::prng::{Digest, Rng};
use crate::stats::Stats;
use etherparse::defrag::{IpDefragBuf, IpDefragError};
use etherparse::{IpFragOffset, IpNumber};

pub type Fail = (String, String);

#[derive(Clone, Debug, PartialEq)]
pub enum BOp {
    Add { off8: u16, more: bool, data: Vec<u8> },
    /// take_bufs() and IpDefragBuf::new() with the same vectors: buffer reuse
    Recycle { ip_number: u8 },
}

impl BOp {
    pub fn to_json(&self) -> J {
        match self {
            BOp::Add { off8, more, data } => J::obj()
                .set("op", J::s("add"))
                .set("off8", J::u(u64::from(*off8)))
                .set("more", J::Bool(*more))
                .set("data", J::s(&hex(data))),
            BOp::Recycle { ip_number } => J::obj()
                .set("op", J::s("recycle"))
                .set("ip_number", J::u(u64::from(*ip_number))),
        }
    }
    pub fn from_json(j: &J) -> Result<BOp, String> {
        match j.str_of("op")? {
            "add" => Ok(BOp::Add {
                off8: j.u64_of("off8")? as u16,
                more: j.bool_of("more")?,
                data: unhex(j.str_of("data")?)?,
            }),
            "recycle" => Ok(BOp::Recycle {
                ip_number: j.u64_of("ip_number")? as u8,
            }),
            other => Err(format!("unknown buf op '{other}'")),
        }
    }
}

fn fail<T>(class: &str, detail: String) -> Result<T, Fail> {
    Err((class.to_string(), detail))
}

pub struct BufStats {
    pub adds: u64,
    pub errors: u64,
    pub completes: u64,
    pub recycles: u64,
    pub recycled_with_stale: u64,
    pub max_sections: usize,
}

/// Executes the history; Err = (index of failing op, failure).
pub fn run_buf_history(ops: &[BOp], log: &mut Digest) -> Result<BufStats, (usize, Fail)> {
    let mut buf = IpDefragBuf::new(IpNumber(17), Vec::new(), Vec::new());
    let mut ip_number = 17u8;
    let mut model = Stream::new();
    let mut st = BufStats {
        adds: 0,
        errors: 0,
        completes: 0,
        recycles: 0,
        recycled_with_stale: 0,
        max_sections: 0,
    };
    for (i, op) in ops.iter().enumerate() {
        let r = (|| -> Result<(), Fail> {
            match op {
                BOp::Recycle { ip_number: n } => {
                    let old = std::mem::replace(&mut buf, IpDefragBuf::new(IpNumber(0), Vec::new(), Vec::new()));
                    let (data, sections) = old.take_bufs();
                    if data.capacity() > 0 {
                        st.recycled_with_stale += 1;
                    }
                    buf = IpDefragBuf::new(IpNumber(*n), data, sections);
                    ip_number = *n;
                    model = Stream::new();
                    st.recycles += 1;
                    log.str("recycle");
                    if !buf.sections().is_empty() || !buf.data().is_empty() || buf.end().is_some() {
                        return fail(
                            "recycled-buffer-not-empty",
                            format!("IpDefragBuf::new with recycled vectors starts with {} sections, {} data bytes, end {:?}", buf.sections().len(), buf.data().len(), buf.end()),
                        );
                    }
                }
                BOp::Add { off8, more, data } => {
                    st.adds += 1;
                    let off = IpFragOffset::try_new(*off8 & 0x1fff).unwrap();
                    let res = buf.add(off, *more, data);
                    let applicable = applicable_errors(Some(&model), *off8 & 0x1fff, *more, data.len());
                    let frag = format!("add([{}..{}), more={more})", usize::from(*off8) * 8, usize::from(*off8) * 8 + data.len());
                    match (&res, applicable.is_empty()) {
                        (Ok(()), true) => {
                            model.apply(*off8 & 0x1fff, *more, data, (i as u64, i as u64));
                            log.str("ok");
                        }
                        (Ok(()), false) => {
                            return fail(
                                "inconsistent-fragment-accepted",
                                format!("{frag} must be rejected ({applicable:?}) but was accepted"),
                            )
                        }
                        (Err(e), true) => {
                            return fail(
                                "consistent-fragment-rejected",
                                format!("{frag} is consistent but was rejected: {e:?}"),
                            )
                        }
                        (Err(e), false) => {
                            let ok = applicable.iter().any(|x| match (e, x) {
                                (IpDefragError::SegmentTooBig { offset, payload_len, max }, ExpErr::SegmentTooBig { off8, len }) => {
                                    offset.value() == *off8 && payload_len == len && *max == 65_535
                                }
                                (IpDefragError::UnalignedFragmentPayloadLen { offset, payload_len }, ExpErr::Unaligned { off8, len }) => {
                                    offset.value() == *off8 && payload_len == len
                                }
                                (IpDefragError::ConflictingEnd { previous_end, conflicting_end }, ExpErr::ConflictingEnd { previous_end: pe, conflicting_end: ce }) => {
                                    conflicting_end == ce && pe.map(|p| p == *previous_end).unwrap_or(true)
                                }
                                _ => false,
                            });
                            if !ok {
                                return fail("wrong-error", format!("{frag}: returned {e:?}, applicable {applicable:?}"));
                            }
                            st.errors += 1;
                            log.str("err");
                        }
                    }
                }
            }
            // invariants after every operation
            if buf.ip_number().0 != ip_number {
                return fail("ip-number-changed", format!("ip_number() is {} after constructing with {ip_number}", buf.ip_number().0));
            }
            if buf.is_complete() != model.complete() {
                return fail(
                    "completeness-mismatch",
                    format!("is_complete() is {} but the reference stream is {} (end {:?}, {} gaps)", buf.is_complete(), if model.complete() { "complete" } else { "incomplete" }, model.end, model.gaps()),
                );
            }
            if buf.end().map(u32::from) != model.end {
                return fail("end-mismatch", format!("end() is {:?}, reference {:?}", buf.end(), model.end));
            }
            // sections: disjoint, non-touching, union == coverage
            let mut secs: Vec<(u32, u32)> = buf.sections().iter().map(|s| (u32::from(s.start), u32::from(s.end))).collect();
            secs.sort_unstable();
            st.max_sections = st.max_sections.max(secs.len());
            for w in secs.windows(2) {
                if w[0].1 >= w[1].0 {
                    return fail("sections-not-disjoint", format!("sections {:?} and {:?} overlap or touch", w[0], w[1]));
                }
            }
            for s in &secs {
                if s.0 > s.1 {
                    return fail("section-inverted", format!("section {s:?} has start > end"));
                }
            }
            let lim = model.covered.len().max(secs.last().map(|s| s.1 as usize).unwrap_or(0));
            let mut by_sections = vec![false; lim];
            for s in &secs {
                for p in s.0 as usize..s.1 as usize {
                    by_sections[p] = true;
                }
            }
            for p in 0..lim {
                let in_sec = by_sections[p];
                let cov = model.covered.get(p).copied().unwrap_or(false);
                if in_sec != cov {
                    return fail(
                        "sections-coverage-mismatch",
                        format!("byte {p} is {} by sections() but {} in the reference", if in_sec { "covered" } else { "not covered" }, if cov { "covered" } else { "not covered" }),
                    );
                }
            }
            // data() agrees with the reference on every covered byte
            let d = buf.data();
            for (p, c) in model.covered.iter().enumerate() {
                if !*c {
                    continue;
                }
                // bytes beyond a known end were cut off by the last fragment
                if let Some(e) = model.end {
                    if p >= e as usize {
                        continue;
                    }
                }
                match d.get(p) {
                    Some(b) if model.value_ok(p, *b) => {}
                    other => {
                        return fail(
                            "data-mismatch",
                            format!("covered byte {p}: data() holds {other:?}, delivered {:#04x}", model.data[p]),
                        )
                    }
                }
            }
            if buf.is_complete() {
                st.completes += 1;
                log.str("complete");
                log.bytes(&d[..model.end.unwrap() as usize]);
            }
            Ok(())
        })();
        if let Err(f) = r {
            return Err((i, f));
        }
    }
    Ok(st)
}

/// Seeded fragment history for one buffer (several datagrams through
/// recycling), including inconsistent fragments.
pub fn gen_buf_history(r: &mut Rng, tiny: bool) -> Vec<BOp> {
    let mut ops = Vec::new();
    let rounds = r.usize_range(1, 3);
    for round in 0..rounds {
        if round > 0 {
            ops.push(BOp::Recycle { ip_number: r.u8() });
        }
        let len = if tiny {
            // Miri configuration: small datagrams only (the per-operation
            // invariant checks are linear in the datagram size)
            r.usize_range(9, 200)
        } else {
            match r.below(16) {
            0 | 1 => r.usize_range(9, 40),
            2 | 3 => r.usize_range(2_000, 9_000),
            // the largest datagrams offset and length fields allow
            4 => *r.pick(&[65_535usize, 65_535, 65_534, 65_528, 65_529, 65_520]),
            _ => r.usize_range(9, 400),
            }
        };
        let payload = r.bytes(len);
        let units = len.div_ceil(8);
        let maxf = *r.pick(&[2usize, 4, 8, 24]);
        let nf = r.usize_range(1, units.min(maxf));
        let mut cuts: Vec<usize> = (0..nf.saturating_sub(1)).map(|_| r.usize_range(1, units.max(2) - 1) * 8).filter(|c| *c < len).collect();
        cuts.sort_unstable();
        cuts.dedup();
        let mut frags = Vec::new();
        let mut start = 0;
        for c in cuts {
            frags.push((start, c - start, true));
            start = c;
        }
        frags.push((start, len - start, false));
        let mut list: Vec<BOp> = frags
            .iter()
            .map(|(o, l, m)| BOp::Add { off8: (*o / 8) as u16, more: *m, data: payload[*o..*o + *l].to_vec() })
            .collect();
        // duplicates and overlapping re-cuts
        let extra = r.usize_range(0, 3);
        for _ in 0..extra {
            match r.below(3) {
                0 => {
                    let k = r.usize_range(0, list.len() - 1);
                    list.push(list[k].clone());
                }
                _ => {
                    let a = r.usize_range(0, units - 1) * 8;
                    let b = (a + 8 * r.usize_range(1, 4)).min(len);
                    list.push(BOp::Add { off8: (a / 8) as u16, more: b < len, data: payload[a..b].to_vec() });
                }
            }
        }
        // inconsistent fragments
        if r.chance(1, 2) {
            let n = r.usize_range(1, 2);
            for _ in 0..n {
                let bad = match r.below(7) {
                    0 => BOp::Add { off8: (units + r.usize_range(0, 3)) as u16, more: false, data: r.bytes(r.clone().usize_range(1, 16)) },
                    1 => BOp::Add { off8: (units + r.usize_range(0, 3)) as u16, more: true, data: r.bytes(8) },
                    2 => BOp::Add { off8: r.usize_range(0, units / 2) as u16, more: false, data: r.bytes(r.clone().usize_range(1, 7)) },
                    3 => BOp::Add { off8: r.usize_range(0, units) as u16, more: true, data: r.bytes(r.clone().usize_range(1, 7)) },
                    4 => BOp::Add { off8: 8191, more: r.bool(), data: r.bytes(8 * r.clone().usize_range(1, 3)) },
                    5 => BOp::Add { off8: r.usize_range(0, units + 2) as u16, more: r.bool(), data: Vec::new() },
                    _ if tiny => BOp::Add { off8: 8190, more: true, data: r.bytes(24) },
                    _ => BOp::Add { off8: 0, more: true, data: r.bytes(65_536) },
                };
                list.push(bad);
            }
        }
        r.shuffle(&mut list);
        ops.extend(list);
    }
    ops
}

pub fn tally_buf(stats: &mut Stats, st: &BufStats) {
    stats.add("executions", st.adds + st.recycles);
    stats.add("bufsim.adds", st.adds);
    stats.add("probe.buf_rejected_fragments", st.errors);
    stats.add("probe.buf_complete_observations", st.completes);
    stats.add("probe.buf_recycled_with_stale_capacity", st.recycled_with_stale);
    if st.max_sections >= 3 {
        stats.inc("probe.buf_three_or_more_sections");
    }
}
