//! World layer: seed -> sender hosts, datagrams, a hostile network, a capture
//! node with eviction timer and node-level faults. Discrete-event simulation:
//! a binary heap ordered by (simulated time, global sequence number); when
//! nothing is due the clock jumps to the next event. The world streams its
//! receiver-side operations into the history layer (real pool + model).

use super::encode::*;
use super::history::*;
use super::model::*;
use crate::prng::{mix, Rng};
use crate::stats::Stats;
use std::cmp::Reverse;
use std::collections::BinaryHeap;

#[derive(Clone, Debug)]
pub struct Cfg {
    pub name: &'static str,
    pub hosts: usize,
    pub datagrams_per_host: usize,
    pub max_frags: usize,
    pub big_payload_permille: u64,
    // network
    pub p_drop: f64,
    pub p_dup: f64,
    pub jitter_us: u64,
    pub burst_reorder: bool,
    pub p_retransmit: f64,
    pub p_flip: f64,
    pub p_truncate: f64,
    pub p_pad: f64,
    // byzantine senders
    pub p_byz: f64,
    pub p_id_reuse: f64,
    // node
    pub evict: bool,
    pub timeout_us: u64,
    pub tick_us: u64,
    pub bulk: bool,
    pub p_return: f64,
    pub p_foreign: f64,
    pub restart: bool,
    pub checkpoint: bool,
    pub alloc_fail: bool,
    pub clock_jump: bool,
    pub background: f64,
    pub twins: bool,
    pub heal: bool,
    /// capture node stalls: arrivals queue up while the eviction timer runs
    pub stall: bool,
    /// network partition: every frame of some hosts is lost for a while
    pub partition: bool,
    /// one large datagram cut into thousands of 8..24 byte fragments that
    /// arrive shuffled: hundreds of simultaneous sections
    pub confetti: bool,
    /// well over a thousand small datagrams whose first fragments all arrive
    /// before any second fragment: thousands of simultaneous streams
    pub stampede: bool,
}

pub fn gen_cfg(mode: &str, c: &mut Rng) -> Cfg {
    let faulty = mode != "clean";
    let tiny = mode == "miri";
    // each fault kind is enabled with probability 1/2 (swarm); rates are
    // log-uniform and tuned so that most runs complete most datagrams
    let on = |c: &mut Rng| faulty && c.bool();
    let rate = |c: &mut Rng, lo: f64, hi: f64| c.log_uniform(lo, hi);
    let jitter = match c.below(4) {
        0 => 0,
        1 => c.range(1, 50),
        2 => c.range(50, 2_000),
        _ => c.range(2_000, 50_000),
    };
    let mut cfg = Cfg {
        name: if mode == "bulk" { "bulk" } else if faulty { "faulty" } else { "clean" },
        hosts: if tiny { c.usize_range(1, 3) } else { c.usize_range(1, 6) },
        datagrams_per_host: if tiny { c.usize_range(1, 3) } else { c.usize_range(1, 12) },
        max_frags: if tiny { 6 } else { *c.pick(&[2usize, 3, 5, 8, 16, 40, 40, 120]) },
        big_payload_permille: if tiny { 0 } else { *c.pick(&[0u64, 0, 5, 20, 150]) },
        p_drop: if on(c) { rate(c, 0.005, 0.2) } else { 0.0 },
        p_dup: if c.bool() { rate(c, 0.01, 0.4) } else { 0.0 },
        jitter_us: jitter,
        burst_reorder: c.chance(1, 4),
        p_retransmit: if on(c) { rate(c, 0.02, 0.3) } else { 0.0 },
        p_flip: if on(c) { rate(c, 0.003, 0.08) } else { 0.0 },
        p_truncate: if on(c) { rate(c, 0.003, 0.08) } else { 0.0 },
        p_pad: if c.bool() { rate(c, 0.02, 0.5) } else { 0.0 },
        p_byz: if on(c) { rate(c, 0.01, 0.15) } else { 0.0 },
        p_id_reuse: if on(c) { rate(c, 0.02, 0.3) } else { 0.0 },
        evict: on(c),
        timeout_us: 0,
        tick_us: 0,
        bulk: mode == "bulk",
        p_return: *c.pick(&[0.0, 0.3, 0.8, 1.0]),
        p_foreign: if on(c) { 0.1 } else { 0.0 },
        restart: on(c) && c.chance(1, 3),
        checkpoint: on(c),
        alloc_fail: on(c) && !tiny,
        clock_jump: on(c) && c.chance(1, 2),
        background: *c.pick(&[0.0, 0.05, 0.3]),
        twins: c.chance(1, 3),
        heal: faulty,
        stall: on(c) && c.chance(1, 2),
        partition: on(c) && c.chance(1, 2),
        confetti: !tiny && mode != "bulk" && c.chance(1, 120),
        stampede: false,
    };
    if !tiny && mode != "bulk" && !cfg.confetti && c.chance(1, 150) {
        cfg.stampede = true;
        cfg.hosts = 4;
        cfg.datagrams_per_host = c.usize_range(300, 450);
        cfg.max_frags = 2;
        cfg.big_payload_permille = 0;
        cfg.p_dup = 0.0;
        cfg.p_retransmit = 0.0;
        cfg.p_byz = 0.0;
        cfg.p_id_reuse = 0.0;
        cfg.background = 0.0;
        cfg.evict = false;
        cfg.restart = false;
        cfg.checkpoint = false;
        cfg.twins = false;
    }
    if cfg.confetti {
        cfg.hosts = 1;
        cfg.datagrams_per_host = 1;
        cfg.burst_reorder = true;
        cfg.p_dup = 0.0;
        cfg.p_retransmit = 0.0;
        cfg.p_byz = 0.0;
        cfg.background = 0.0;
    }
    if mode == "bulk" {
        cfg.evict = true;
        // multi-victim retain fills the free lists in HashMap order, so the
        // capacity of the next recycled buffer - and with it whether an
        // armed allocation failure is consumed - is not a function of the
        // history; allocation failures are injected in the single-victim
        // configurations only
        cfg.alloc_fail = false;
    }
    if faulty && !(cfg.p_drop > 0.0
        || cfg.p_retransmit > 0.0
        || cfg.p_flip > 0.0
        || cfg.p_truncate > 0.0
        || cfg.p_byz > 0.0
        || cfg.p_id_reuse > 0.0
        || cfg.evict
        || cfg.restart
        || cfg.checkpoint
        || cfg.alloc_fail
        || cfg.stall
        || cfg.partition)
    {
        // at least one fault kind in a faulty run
        cfg.p_drop = 0.05;
    }
    // eviction timeout from well below to well above the network jitter
    let base = cfg.jitter_us.max(20);
    cfg.timeout_us = (base as f64 * c.log_uniform(0.1, 20.0)) as u64 + 1;
    cfg.tick_us = (cfg.timeout_us / 2).max(5);
    cfg
}

#[derive(Clone, Debug)]
struct Datagram {
    host: usize,
    id: u32,
    proto: u8,
    payload: Vec<u8>,
    byzantine: bool,
}

#[derive(Clone, Debug)]
enum Ev {
    /// a frame arrives at the capture node
    Arrive {
        host: usize,
        frame: Vec<u8>,
        truth: Option<Truth>,
        passthrough: bool,
        /// ether type of the packet behind the tags (known to the sender)
        inner: u16,
    },
    Tick,
    SendDatagram(usize),
    Restart,
    Checkpoint,
    Rollback,
    ClockJump(i64),
    Heal,
    /// the capture node processes nothing until this time
    Stall(u64),
    /// frames of hosts with index % 2 == parity are lost until this time
    Partition(u64, usize),
}

struct Item {
    at: u64,
    seq: u64,
    ev: Ev,
}
impl PartialEq for Item {
    fn eq(&self, o: &Item) -> bool {
        self.at == o.at && self.seq == o.seq
    }
}
impl Eq for Item {}
impl PartialOrd for Item {
    fn partial_cmp(&self, o: &Item) -> Option<std::cmp::Ordering> {
        Some(self.cmp(o))
    }
}
impl Ord for Item {
    fn cmp(&self, o: &Item) -> std::cmp::Ordering {
        (self.at, self.seq).cmp(&(o.at, o.seq))
    }
}

pub struct World {
    cfg: Cfg,
    hosts: Vec<HostCfg>,
    datagrams: Vec<Datagram>,
    q: BinaryHeap<Reverse<Item>>,
    seq: u64,
    now: u64,
    /// offset added to the timestamps handed to the pool (clock jumps)
    skew: i64,
    net: Rng,
    node: Rng,
    wl: Rng,
    pub ops: Vec<Op>,
    pub exec: Exec,
    healed: bool,
    /// per datagram: number of completions observed
    completions: Vec<u32>,
    fault_in_flight: bool,
    interleaved: bool,
    last_stream_host: Option<usize>,
    redeliver: Vec<(usize, Vec<u8>, Option<Truth>, u16)>,
    pub record_to_thread_local: bool,
    stall_until: u64,
    partition_until: u64,
    partition_parity: usize,
    completed_keys: std::collections::BTreeSet<Key>,
    evicted_keys: std::collections::BTreeSet<Key>,
    sent_keys: std::collections::BTreeSet<Key>,
}

pub const MAX_EVENTS: usize = 4_000;

fn gen_host(i: usize, w: &mut Rng, twin_of: Option<&HostCfg>, twin_dim: u64) -> HostCfg {
    if let Some(t) = twin_of {
        // a twin differs from its sibling in exactly one dimension of the
        // stream key: channel, one VLAN id, or nothing but the IP version
        let mut h = t.clone();
        match twin_dim {
            0 => h.channel = t.channel + 1,
            1 if !t.vlans.is_empty() => {
                let k = w.usize_range(0, t.vlans.len() - 1);
                h.vlans[k].1 = (t.vlans[k].1 + 1) & 0xfff;
            }
            2 => {
                h.v6 = !t.v6;
            }
            // 4: the VLAN stacks differ by one tag (an added priority tag with
            // id 0 or another id, or one tag less)
            4 if t.link != Link::BareIp && (t.vlans.len() + usize::from(t.macsec.is_some()) < 3 || !t.vlans.is_empty()) => {
                let can_add = t.vlans.len() + usize::from(t.macsec.is_some()) < 3;
                if can_add && (t.vlans.is_empty() || w.bool()) {
                    let at = w.usize_range(0, t.vlans.len());
                    let vid = if w.chance(2, 3) { 0 } else { w.u16() & 0xfff };
                    h.vlans.insert(at, (*w.pick(&[0x8100u16, 0x88a8, 0x9100]), vid));
                    if let Some((m, sci)) = h.macsec {
                        if m >= at {
                            h.macsec = Some((m + 1, sci));
                        }
                    }
                } else {
                    let at = w.usize_range(0, t.vlans.len() - 1);
                    h.vlans.remove(at);
                    if let Some((m, sci)) = h.macsec {
                        if m > at {
                            h.macsec = Some((m - 1, sci));
                        }
                    }
                }
            }
            // 5: source and destination swapped (the reverse direction of
            // the same conversation with the same identification)
            5 => {
                std::mem::swap(&mut h.src, &mut h.dst);
            }
            // 6 / 7: only the source / only the destination differs, in its
            // last byte (IPv4: byte 3, IPv6: byte 15)
            6 => {
                let k = if t.v6 { 15 } else { 3 };
                h.src[k] ^= 1 << w.below(8);
            }
            7 => {
                let k = if t.v6 { 15 } else { 3 };
                h.dst[k] ^= 1 << w.below(8);
            }
            // 3: identical stream key dimensions; the twin's datagrams then
            // differ from the sibling's only in the upper 16 bits of the
            // (32-bit, IPv6) identification - see `plan`
            3 if t.v6 => {}
            _ => h.channel = t.channel + 7,
        }
        return h;
    }
    let link = match w.below(6) {
        0 => Link::BareIp,
        1 => Link::Sll,
        2 => Link::EtherPayload,
        _ => Link::Eth,
    };
    let nv = if link == Link::BareIp { 0 } else { *w.pick(&[0usize, 0, 1, 1, 2, 3]) };
    let vlans = (0..nv)
        .map(|_| {
            let tpid = *w.pick(&[0x8100u16, 0x88a8, 0x9100]);
            // priority-tagged frames (id 0) and the field maximum included
            let vid = match w.below(6) {
                0 => 0,
                1 => 0xfff,
                2 => 1,
                _ => w.u16() & 0xfff,
            };
            (tpid, vid)
        })
        .collect();
    let macsec = if link != Link::BareIp && nv < 3 && w.chance(1, 5) {
        Some((w.usize_range(0, nv), w.bool()))
    } else {
        None
    };
    let v6 = w.bool();
    let mut src = [0u8; 16];
    let mut dst = [0u8; 16];
    w.fill(&mut src);
    w.fill(&mut dst);
    src[0] = 10 + i as u8;
    let mut pre = Vec::new();
    if v6 {
        if w.chance(1, 3) {
            pre.push(PreExt { kind: 0, units: w.below(3) as u8 });
        }
        if w.chance(1, 3) {
            pre.push(PreExt { kind: 60, units: w.below(3) as u8 });
        }
        if pre.len() < 2 && w.chance(1, 3) {
            pre.push(PreExt { kind: 43, units: w.below(3) as u8 });
        }
        if w.chance(1, 12) {
            // an atomic fragment header in front of the fragmenting one: the
            // pool looks at the first fragment header only, so these packets
            // are not fragments for it
            pre.push(PreExt { kind: 44, units: 0 });
        }
    }
    let v6_zero_len = v6 && w.chance(1, 10);
    HostCfg {
        link,
        vlans,
        v6,
        src,
        dst,
        channel: w.below(3) as u32,
        macsec,
        v4_opt_words: if w.chance(1, 4) { w.range(1, 10) as u8 } else { 0 },
        v6_pre: pre,
        v6_zero_len,
    }
}

pub fn key_of(h: &HostCfg, id: u32, proto: u8) -> Key {
    Key {
        vlans: if h.link == Link::BareIp { Vec::new() } else { h.vlans.iter().map(|v| v.1).collect() },
        v6: h.v6,
        src: if h.v6 { h.src.to_vec() } else { h.src[..4].to_vec() },
        dst: if h.v6 { h.dst.to_vec() } else { h.dst[..4].to_vec() },
        id: if h.v6 { id } else { id & 0xffff },
        proto,
        channel: h.channel,
    }
}

fn gen_proto(w: &mut Rng, v6: bool) -> u8 {
    loop {
        let p = match w.below(3) {
            0 => *w.pick(&[17u8, 6, 1, 58, 47, 50, 132]),
            _ => w.u8(),
        };
        // fragmentable parts that start with an extension header are not
        // generated (DESIGN 6.4)
        let ext = if v6 { matches!(p, 0 | 43 | 44 | 51 | 60 | 135 | 139 | 140) } else { p == 51 };
        if !ext {
            return p;
        }
    }
}

/// Cuts `len` bytes into fragments at multiples of 8: (offset, length, more).
/// No fragment carries more than `max_frag` bytes (what still fits into one
/// IP packet behind the host's header chain).
fn cut(len: usize, max_frags: usize, max_frag: usize, w: &mut Rng) -> Vec<(usize, usize, bool)> {
    if len == 0 {
        return vec![];
    }
    let max_frag = (max_frag / 8) * 8;
    let units = len.div_ceil(8);
    let nf = w.usize_range(2.min(units.max(1)), max_frags.min(units).max(1));
    let mut cuts: Vec<usize> = Vec::new();
    if units > 1 {
        for _ in 0..nf.saturating_sub(1) {
            cuts.push(w.usize_range(1, units - 1) * 8);
        }
    }
    // split what would not fit into one packet
    let mut k = max_frag;
    while k < len {
        cuts.push(k);
        k += max_frag;
    }
    cuts.sort_unstable();
    cuts.dedup();
    let mut out = Vec::new();
    let mut start = 0;
    for c in cuts {
        let mut s0 = start;
        while c - s0 > max_frag {
            out.push((s0, max_frag, true));
            s0 += max_frag;
        }
        out.push((s0, c - s0, true));
        start = c;
    }
    while len - start > max_frag {
        out.push((start, max_frag, true));
        start += max_frag;
    }
    out.push((start, len - start, false));
    out
}

impl World {
    pub fn new(seed: u64, mode: &str) -> World {
        let root = Rng::new(seed);
        let mut c = root.sub(1);
        let cfg = gen_cfg(mode, &mut c);
        let mut w = root.sub(2);
        let mut hosts: Vec<HostCfg> = Vec::new();
        for i in 0..cfg.hosts {
            let twin = if cfg.twins && i % 2 == 1 { hosts.get(i - 1).cloned() } else { None };
            let dim = w.below(8);
            hosts.push(gen_host(i, &mut w, twin.as_ref(), dim));
        }
        let mut world = World {
            cfg,
            hosts,
            datagrams: Vec::new(),
            q: BinaryHeap::new(),
            seq: 0,
            now: 0,
            skew: 0,
            net: root.sub(3),
            node: root.sub(4),
            wl: w,
            ops: Vec::new(),
            exec: Exec::new(),
            healed: false,
            completions: Vec::new(),
            fault_in_flight: false,
            interleaved: false,
            last_stream_host: None,
            redeliver: Vec::new(),
            record_to_thread_local: false,
            stall_until: 0,
            partition_until: 0,
            partition_parity: 0,
            completed_keys: Default::default(),
            evicted_keys: Default::default(),
            sent_keys: Default::default(),
        };
        world.plan(seed);
        world
    }

    fn push(&mut self, at: u64, ev: Ev) {
        self.seq += 1;
        self.q.push(Reverse(Item { at, seq: self.seq, ev }));
    }

    fn plan(&mut self, seed: u64) {
        // datagrams: unique pseudo-random payload per (seed, host, number)
        let twin_ids = self.cfg.twins;
        for h in 0..self.hosts.len() {
            // identification field edges now and then
            let mut next_id: u32 = match self.wl.below(6) {
                0 => *self.wl.pick(&[0u32, 0xfffe, 0xffff, 0x1_0000, 0xffff_fffe, 0x7fff_ffff]),
                _ => self.wl.u32(),
            };
            for n in 0..self.cfg.datagrams_per_host {
                let len = if self.cfg.stampede {
                    self.wl.usize_range(9, 40)
                } else if self.cfg.confetti {
                    self.wl.usize_range(9_000, 40_000)
                } else if self.wl.below(1000) < self.cfg.big_payload_permille {
                    // up to the largest datagram the 13-bit offset + 16-bit length allow
                    *self.wl.pick(&[65_535usize, 65_535, 65_534, 65_528, 65_529, 65_515, 65_000, 40_000, 20_000])
                } else {
                    match self.wl.below(10) {
                        0 => self.wl.usize_range(9, 24),
                        1..=6 => self.wl.usize_range(9, 600),
                        _ => self.wl.usize_range(600, 3_000),
                    }
                };
                let mut payload = vec![0u8; len];
                Rng::new(mix(&[seed, 0xda7a, h as u64, n as u64])).fill(&mut payload);
                let reuse = n > 0 && self.wl.prob(self.cfg.p_id_reuse);
                if !reuse {
                    next_id = next_id.wrapping_add(1 + self.wl.below(3) as u32);
                }
                // twins share identification and protocol, so that their
                // streams differ in one key dimension only
                let (id, proto) = if twin_ids && h % 2 == 1 {
                    let sib = self
                        .datagrams
                        .iter()
                        .filter(|d| d.host == h - 1)
                        .nth(n)
                        .map(|d| (d.id, d.proto));
                    let same_key_dims = self.hosts[h] == self.hosts[h - 1];
                    match sib {
                        // identical hosts: only the upper half of the 32-bit
                        // IPv6 identification tells the streams apart
                        Some((id, p)) if same_key_dims => (id ^ (1 << (16 + (n % 16))), p),
                        Some(x) => x,
                        None => (next_id, gen_proto(&mut self.wl, self.hosts[h].v6)),
                    }
                } else {
                    (next_id, gen_proto(&mut self.wl, self.hosts[h].v6))
                };
                let proto = if self.hosts[h].v6 && matches!(proto, 0 | 43 | 44 | 51 | 60 | 135 | 139 | 140) || (!self.hosts[h].v6 && proto == 51) { 17 } else { proto };
                let byz = self.wl.prob(self.cfg.p_byz);
                self.datagrams.push(Datagram { host: h, id, proto, payload, byzantine: byz });
                self.completions.push(0);
                let idx = self.datagrams.len() - 1;
                let at = self.wl.range(0, 400) * (n as u64 + 1) + self.wl.range(0, self.cfg.jitter_us.max(1));
                self.push(at, Ev::SendDatagram(idx));
            }
        }
        let horizon = 400 * (self.cfg.datagrams_per_host as u64 + 1) + 3 * self.cfg.jitter_us + 1_000;
        if self.cfg.evict {
            let mut t = self.cfg.tick_us;
            let mut n = 0;
            while t < horizon && n < 200 {
                self.push(t, Ev::Tick);
                t += self.cfg.tick_us;
                n += 1;
            }
        }
        if self.cfg.restart {
            let at = self.node.range(0, horizon);
            self.push(at, Ev::Restart);
        }
        if self.cfg.checkpoint {
            let a = self.node.range(0, horizon);
            let b = a + self.node.range(1, horizon / 2 + 1);
            self.push(a, Ev::Checkpoint);
            self.push(b, Ev::Rollback);
        }
        if self.cfg.clock_jump {
            let at = self.node.range(0, horizon);
            let by = if self.node.bool() { 10 * self.cfg.timeout_us as i64 } else { -(self.cfg.timeout_us as i64) };
            self.push(at, Ev::ClockJump(by));
        }
        if self.cfg.stall {
            let at = self.node.range(0, horizon);
            let len = self.node.range(1, 4 * self.cfg.timeout_us + 50);
            self.push(at, Ev::Stall(at + len));
        }
        if self.cfg.partition {
            let at = self.node.range(0, horizon);
            let len = self.node.range(1, horizon / 3 + 50);
            let parity = self.node.below(2) as usize;
            self.push(at, Ev::Partition(at + len, parity));
        }
        if self.cfg.heal {
            // behind every arrival, also those a stall deferred
            self.push(horizon + 5 * self.cfg.jitter_us + 10 + 4 * self.cfg.timeout_us + 60, Ev::Heal);
        }
    }

    /// Hands one fragment frame to the network: drop / duplicate / delay /
    /// corrupt / truncate / pad decisions, then Arrive events.
    fn transmit(&mut self, host: usize, f: &Frag, clean_truth: bool, faults_on: bool, stats: &mut Stats) {
        let h = self.hosts[host].clone();
        // trailer behind the IP packet (Ethernet padding, capture trailer) -
        // also for frames that start at the IP header
        let pad = if self.net.prob(self.cfg.p_pad) && !(h.v6 && h.v6_zero_len) { self.net.usize_range(1, 40) } else { 0 };
        let atomic_first = h.v6 && h.v6_pre.iter().any(|e| e.kind == 44);
        let ttl = 64;
        let (frame, payload_at) = encode_fragment(&h, f, pad, ttl);
        // offset 0 without the more-fragments flag is not a fragment at all
        let truth = if clean_truth && (f.off8 != 0 || f.more) && !atomic_first {
            Some(Truth {
                key: key_of(&h, f.id, f.proto),
                off8: f.off8,
                more: f.more,
                payload_at,
                payload_len: f.payload.len(),
            })
        } else {
            None
        };
        let copies = if self.net.prob(self.cfg.p_dup) { self.net.usize_range(2, 3) } else { 1 };
        if copies > 1 {
            stats.inc("fault_fired.duplicate");
        }
        for _ in 0..copies {
            if faults_on && self.net.prob(self.cfg.p_drop) {
                stats.inc("fault_fired.drop");
                self.fault_in_flight = true;
                continue;
            }
            if faults_on && self.now < self.partition_until && host % 2 == self.partition_parity {
                stats.inc("fault_fired.partition_loss");
                self.fault_in_flight = true;
                continue;
            }
            let mut fr = frame.clone();
            let mut tr = truth.clone();
            if faults_on && self.net.prob(self.cfg.p_flip) && !fr.is_empty() {
                let n = self.net.usize_range(1, 3);
                let ip_at = ip_offset(&h);
                for _ in 0..n {
                    // biased towards the IP header
                    let i = if self.net.chance(3, 4) {
                        (ip_at + self.net.usize_range(0, ip_header_len(&h) - 1)).min(fr.len() - 1)
                    } else {
                        self.net.usize_range(0, fr.len() - 1)
                    };
                    fr[i] ^= 1 << self.net.below(8);
                }
                tr = None;
                stats.inc("fault_fired.bit_flip");
                self.fault_in_flight = true;
            }
            if faults_on && self.net.prob(self.cfg.p_truncate) && !fr.is_empty() {
                let cut = self.net.usize_range(0, fr.len() - 1);
                fr.truncate(cut);
                tr = None;
                stats.inc("fault_fired.truncate");
                self.fault_in_flight = true;
            }
            let delay = 10 + if self.cfg.jitter_us > 0 { self.net.range(0, self.cfg.jitter_us) } else { 0 };
            if pad > 0 {
                stats.inc("fault_fired.trailer_padding");
            }
            let at = self.now + delay;
            self.push(at, Ev::Arrive { host, frame: fr, truth: tr, passthrough: false, inner: if h.v6 { ETHER_IPV6 } else { ETHER_IPV4 } });
        }
    }

    fn send_datagram(&mut self, idx: usize, stats: &mut Stats, in_heal: bool) {
        let d = self.datagrams[idx].clone();
        let faults_on = !in_heal;
        {
            let k = key_of(&self.hosts[d.host], d.id, d.proto);
            if !in_heal && !self.sent_keys.insert(k.clone()) {
                stats.inc("fault_fired.identification_reuse");
                if self.completed_keys.contains(&k) {
                    stats.inc("probe.id_reuse_after_completion");
                } else if self.evicted_keys.contains(&k) {
                    stats.inc("probe.id_reuse_after_eviction");
                } else {
                    stats.inc("probe.id_reuse_while_stream_in_flight");
                }
            }
        }
        let max_frag = 65_535 - (ip_header_len(&self.hosts[d.host]) - if self.hosts[d.host].v6 { 40 } else { 0 });
        let frags = if self.cfg.confetti {
            let mut v = Vec::new();
            let mut at = 0;
            let len = d.payload.len();
            while at < len {
                let l = (8 * self.wl.usize_range(1, 3)).min(len - at);
                v.push((at, l, at + l < len));
                at += l;
            }
            stats.add("probe.confetti_fragments", v.len() as u64);
            v
        } else {
            cut(d.payload.len(), self.cfg.max_frags, max_frag, &mut self.wl)
        };
        let mut list: Vec<Frag> = frags
            .iter()
            .map(|(o, l, m)| Frag {
                id: d.id,
                proto: d.proto,
                off8: (*o / 8) as u16,
                more: *m,
                payload: d.payload[*o..*o + *l].to_vec(),
            })
            .collect();
        if list.len() == 1 && !list[0].more {
            // a single unfragmented packet: background for the pool
            list[0].more = false;
        }
        if self.cfg.burst_reorder {
            self.wl.shuffle(&mut list);
        }
        let byz = d.byzantine && faults_on;
        if self.cfg.stampede && !in_heal && list.len() >= 2 {
            // first fragment now, the rest only after every datagram of the
            // run has sent its first fragment
            let late = list.split_off(1);
            for f in &list {
                self.transmit(d.host, f, true, faults_on, stats);
            }
            let hold = 400 * (self.cfg.datagrams_per_host as u64 + 2) + 2 * self.cfg.jitter_us + 50;
            let saved = self.now;
            self.now = saved.max(hold);
            for f in &late {
                self.transmit(d.host, f, true, faults_on, stats);
            }
            self.now = saved;
            stats.inc("probe.stampede_datagrams");
            return;
        }
        for f in &list {
            self.transmit(d.host, f, true, faults_on, stats);
            self.now += self.wl.range(0, 3);
        }
        if faults_on && self.wl.prob(self.cfg.p_retransmit) {
            // whole datagram again with a different cut (consistent overlaps)
            stats.inc("fault_fired.retransmit_different_cut");
            let again = cut(d.payload.len(), self.cfg.max_frags, max_frag, &mut self.wl);
            for (o, l, m) in again {
                let f = Frag { id: d.id, proto: d.proto, off8: (o / 8) as u16, more: m, payload: d.payload[o..o + l].to_vec() };
                self.transmit(d.host, &f, true, faults_on, stats);
            }
        }
        if byz {
            // Byzantine sender: descriptor-level garbage for this stream
            let len = d.payload.len();
            let kind = self.wl.below(7);
            let mk = |off8: usize, l: usize, more: bool, w: &mut Rng| Frag {
                id: d.id,
                proto: d.proto,
                // 13-bit field
                off8: off8.min(8191) as u16,
                more,
                payload: w.bytes(l),
            };
            let f = match kind {
                // a second "last" fragment with another end
                0 => mk(len / 8 + 1 + self.wl.usize_range(0, 4), self.wl.usize_range(1, 24), false, &mut self.wl),
                // a fragment beyond the announced end
                1 => mk(len.div_ceil(8) + self.wl.usize_range(0, 3), 8 * self.wl.usize_range(1, 3), true, &mut self.wl),
                // a last fragment that ends before bytes already sent
                2 => mk(self.wl.usize_range(0, (len / 16).max(1)), self.wl.usize_range(1, 7), false, &mut self.wl),
                // a non-last fragment whose length is not a multiple of 8
                3 => mk(self.wl.usize_range(0, len / 8), 8 * self.wl.usize_range(0, 2) + self.wl.usize_range(1, 7), true, &mut self.wl),
                // offset + length beyond 65535
                4 => mk(8191, 8 * self.wl.usize_range(1, 4), self.wl.bool(), &mut self.wl),
                // zero-length fragments
                5 => mk(self.wl.usize_range(0, len / 8 + 2), 0, self.wl.bool(), &mut self.wl),
                // overlapping fragment with different content
                _ => mk(self.wl.usize_range(0, len / 8), 8 * self.wl.usize_range(1, 3), true, &mut self.wl),
            };
            let fkind = ["second_last", "beyond_end", "last_before_sent", "unaligned", "too_big", "zero_length", "conflicting_overlap"][kind as usize];
            stats.inc(&format!("fault_fired.byzantine_{fkind}"));
            self.fault_in_flight = true;
            // the oracle learns what was sent from the sliced frame itself;
            // the frame is undamaged, so the slicer must accept it
            self.transmit(d.host, &f, true, faults_on, stats);
        }
        if self.wl.prob(self.cfg.background) {
            let kind = *self.wl.pick(&[Background::Unfragmented, Background::AtomicV6, Background::Arp, Background::UnknownEtherType]);
            let body = self.wl.bytes(self.wl.clone().usize_range(0, 40));
            let frame = encode_background(&self.hosts[d.host], kind, &body, d.id);
            let hb = &self.hosts[d.host];
            let linked = hb.link != Link::BareIp;
            let inner = match kind {
                Background::Arp if linked => ETHER_ARP,
                Background::UnknownEtherType if linked => 0x88b5,
                Background::AtomicV6 => ETHER_IPV6,
                _ => {
                    if hb.v6 {
                        ETHER_IPV6
                    } else {
                        ETHER_IPV4
                    }
                }
            };
            let at = self.now + 10 + self.net.range(0, self.cfg.jitter_us.max(1));
            self.push(at, Ev::Arrive { host: d.host, frame, truth: None, passthrough: true, inner });
        }
    }

    fn apply(&mut self, op: Op, stats: &mut Stats) -> Result<StepInfo, (usize, Fail)> {
        if self.record_to_thread_local {
            super::note_op(&op);
        }
        if crate::runner::tracing() {
            // crashes cannot be caught: the parent assembles the history
            crate::runner::announce_op(&op.to_json());
        }
        let r = self.exec.apply(&op);
        self.ops.push(op);
        match r {
            Ok(info) => {
                tally(stats, &info);
                if let Some(k) = &info.key {
                    if info.new_stream && info.error.is_none() && !info.alloc_failed {
                        if self.completed_keys.contains(k) {
                            stats.inc("probe.fragment_after_completion_opens_new_stream");
                        }
                        if self.evicted_keys.contains(k) {
                            stats.inc("probe.fragment_after_eviction_opens_new_stream");
                        }
                    }
                    if info.completed.is_some() {
                        self.completed_keys.insert(k.clone());
                    }
                }
                for k in &info.evicted_keys {
                    self.evicted_keys.insert(k.clone());
                }
                Ok(info)
            }
            Err(f) => Err((self.ops.len() - 1, f)),
        }
    }

    fn ts(&self) -> Ts {
        ((self.now as i64 + self.skew).max(0) as u64, self.seq)
    }

    /// Runs the simulation to completion. Err = (index of the failing op, failure).
    pub fn run(&mut self, stats: &mut Stats) -> Result<(), (usize, Fail)> {
        if self.record_to_thread_local {
            super::clear_noted_ops();
        }
        let mut events = 0usize;
        while let Some(Reverse(item)) = self.q.pop() {
            events += 1;
            if events > if self.cfg.confetti || self.cfg.stampede { 8 * MAX_EVENTS } else { MAX_EVENTS } {
                stats.inc("netsim.event_cap_hit");
                break;
            }
            // discrete-event time: jump to the next event
            if item.at > self.now {
                self.now = item.at;
            }
            self.seq += 1;
            match item.ev {
                Ev::SendDatagram(idx) => {
                    let healed = self.healed;
                    self.send_datagram(idx, stats, healed);
                }
                Ev::Arrive { host, frame, truth, passthrough, inner } => {
                    if self.now < self.stall_until && !self.healed {
                        // stalled node: the frame waits in the capture queue
                        // and is processed (and timestamped) when the stall
                        // ends, in arrival order
                        stats.inc("fault_fired.node_stall_deferred_delivery");
                        let at = self.stall_until;
                        self.push(at, Ev::Arrive { host, frame, truth, passthrough, inner });
                        continue;
                    }
                    let h = &self.hosts[host];
                    let alloc_fail = self.cfg.alloc_fail && !self.healed && self.node.chance(1, 12);
                    let entry = if h.link == Link::EtherPayload {
                        // the ether type in front of the frame is read off the
                        // host configuration (IPv4 / IPv6 / ARP / unknown
                        // background frames carry it in their first tag or not
                        // at all, so it is derived from the frame kind)
                        format!("et:{:04x}", first_ether_type(h, inner))
                    } else {
                        h.link.entry().to_string()
                    };
                    let op = Op::Deliver {
                        entry,
                        channel: h.channel,
                        ts: self.ts(),
                        frame: frame.clone(),
                        alloc_fail,
                        truth: truth.clone(),
                        passthrough,
                    };
                    let streams_before = self.exec.model.streams.len();
                    let info = self.apply(op, stats)?;
                    if !info.not_fragment && !info.slicer_rejected {
                        if let Some(l) = self.last_stream_host {
                            if l != host && streams_before >= 1 {
                                self.interleaved = true;
                            }
                        }
                        self.last_stream_host = Some(host);
                    }
                    if info.alloc_failed {
                        // the same fragment is delivered again: it must now succeed
                        stats.inc("fault_fired.allocation_failure");
                        self.fault_in_flight = true;
                        self.redeliver.push((host, frame, truth, inner));
                    }
                    if let Some((key, _len)) = &info.completed {
                        // which datagram was that?
                        for (i, d) in self.datagrams.iter().enumerate() {
                            if key_of(&self.hosts[d.host], d.id, d.proto) == *key {
                                if let Some(held) = self.exec.held.last() {
                                    if held.payload == d.payload {
                                        self.completions[i] += 1;
                                    }
                                }
                            }
                        }
                        // buffer handling of the capture node
                        if self.node.prob(self.cfg.p_return) {
                            let idx = self.node.usize_range(0, self.exec.held.len() - 1);
                            self.apply(Op::Return { idx }, stats)?;
                        }
                        if self.node.prob(self.cfg.p_foreign) {
                            let len = self.node.usize_range(0, 4_000);
                            let cap = len + self.node.usize_range(0, 4_000);
                            self.apply(Op::ReturnForeign { len, cap }, stats)?;
                            stats.inc("fault_fired.foreign_buffer_returned");
                        }
                    }
                    if let Some((h2, fr, tr, inner)) = self.redeliver.pop() {
                        let at = self.now + 1;
                        self.push(at, Ev::Arrive { host: h2, frame: fr, truth: tr, passthrough: false, inner });
                    }
                }
                Ev::Tick => {
                    if self.healed {
                        continue;
                    }
                    let now_ts = (self.now as i64 + self.skew).max(0) as u64;
                    if self.cfg.bulk {
                        let cutoff = now_ts.saturating_sub(self.cfg.timeout_us);
                        let before = self.exec.model.streams.len();
                        let info = self.apply(Op::BulkEvict { cutoff }, stats)?;
                        if info.evicted > 0 {
                            stats.add("fault_fired.eviction_bulk", info.evicted as u64);
                            if info.evicted >= 2 {
                                stats.inc("probe.bulk_evict_multi_victim");
                            }
                            self.fault_in_flight = true;
                        }
                        let _ = before;
                    } else {
                        // observe which timestamps the pool presents, apply the
                        // time-out policy to them, evict one victim per call
                        let presented = self.exec.presented();
                        let mut victims: Vec<Ts> = presented
                            .into_iter()
                            .filter(|t| t.0 + self.cfg.timeout_us < now_ts)
                            .collect();
                        self.node.shuffle(&mut victims);
                        for v in victims {
                            let info = self.apply(Op::Evict { ts: v }, stats)?;
                            if info.evicted > 0 {
                                stats.inc("fault_fired.eviction");
                                self.fault_in_flight = true;
                            }
                        }
                    }
                }
                Ev::Restart => {
                    if !self.healed {
                        if !self.exec.model.streams.is_empty() {
                            self.fault_in_flight = true;
                        }
                        self.apply(Op::Restart, stats)?;
                        stats.inc("fault_fired.restart");
                    }
                }
                Ev::Checkpoint => {
                    if !self.healed {
                        self.apply(Op::Checkpoint, stats)?;
                    }
                }
                Ev::Rollback => {
                    if !self.healed {
                        let c = self.exec.completions;
                        let info = self.apply(Op::Rollback, stats)?;
                        stats.inc("fault_fired.rollback");
                        if info.rollback_streams_delta != 0 {
                            stats.inc("probe.rollback_changed_stream_set");
                            self.fault_in_flight = true;
                        }
                        let _ = c;
                    }
                }
                Ev::ClockJump(by) => {
                    if !self.healed {
                        self.skew += by;
                        stats.inc(if by > 0 { "fault_fired.clock_jump_forward" } else { "fault_fired.clock_jump_backward" });
                    }
                }
                Ev::Stall(until) => {
                    if !self.healed {
                        self.stall_until = until;
                    }
                }
                Ev::Partition(until, parity) => {
                    if !self.healed {
                        self.partition_until = until;
                        self.partition_parity = parity;
                    }
                }
                Ev::Heal => {
                    // the heal point lies behind everything the faulty phase
                    // still has in flight (long transmissions, stalls)
                    let pending = self
                        .q
                        .iter()
                        .filter(|Reverse(i)| matches!(i.ev, Ev::Arrive { .. } | Ev::SendDatagram(_)))
                        .map(|Reverse(i)| i.at)
                        .max();
                    if let Some(last) = pending {
                        let at = last.max(self.now) + 1;
                        self.push(at, Ev::Heal);
                        continue;
                    }
                    // all faults stop; streams are dropped and every datagram
                    // that has not been returned yet is sent once more
                    self.healed = true;
                    let presented = self.exec.presented();
                    for v in presented {
                        self.apply(Op::Evict { ts: v }, stats)?;
                    }
                    let mut pending: Vec<usize> = (0..self.datagrams.len())
                        .filter(|i| self.completions[*i] == 0 && self.datagrams[*i].payload.len() > 8)
                        .collect();
                    self.wl.shuffle(&mut pending);
                    stats.add("netsim.heal_retransmissions", pending.len() as u64);
                    // id reuse would mix two datagrams in one stream: during
                    // the heal phase they are sent one after the other
                    let mut t = self.now + 1;
                    for i in pending {
                        self.push(t, Ev::SendDatagram(i));
                        t += 4 * self.cfg.jitter_us + 200;
                    }
                }
            }
        }
        stats.sim_time_us += self.now;
        Ok(())
    }

    /// World-level verdicts after the run (exactly-once accounting in the
    /// clean configuration, bounded liveness after the heal point).
    pub fn final_checks(&self, stats: &mut Stats) -> Result<(), Fail> {
        let must_complete = self.cfg.name == "clean" || self.healed;
        let mut missing = Vec::new();
        for (i, d) in self.datagrams.iter().enumerate() {
            if d.payload.len() <= 8 {
                continue;
            }
            let hc = &self.hosts[d.host];
            if hc.v6 && hc.v6_pre.iter().any(|e| e.kind == 44) {
                // not fragments for the pool (atomic fragment header first)
                stats.inc("netsim.datagrams_behind_atomic_fragment_header");
                continue;
            }
            if self.completions[i] == 0 {
                missing.push(i);
            } else {
                stats.inc("netsim.datagrams_returned");
            }
            if self.completions[i] > 1 {
                stats.inc("probe.datagram_returned_again_after_full_duplicate_set");
            }
        }
        stats.add("netsim.datagrams", self.datagrams.len() as u64);
        if must_complete && !missing.is_empty() && stats.get("netsim.event_cap_hit") == 0 {
            // twins / id reuse can make two datagrams share one stream key, in
            // which case neither needs to come back byte-identical
            let shared = |i: usize| {
                let d = &self.datagrams[i];
                let k = key_of(&self.hosts[d.host], d.id, d.proto);
                self.datagrams
                    .iter()
                    .enumerate()
                    .any(|(j, e)| j != i && key_of(&self.hosts[e.host], e.id, e.proto) == k)
            };
            let really: Vec<usize> = missing.into_iter().filter(|i| !shared(*i)).collect();
            if !really.is_empty() {
                let d = &self.datagrams[really[0]];
                return Err((
                    "datagram-never-returned".to_string(),
                    format!(
                        "{} of {} datagrams were never returned although all their fragments were delivered without faults (first: host {} id {} len {}){}",
                        really.len(),
                        self.datagrams.len(),
                        d.host,
                        d.id,
                        d.payload.len(),
                        if self.healed { " within the heal phase" } else { "" }
                    ),
                ));
            }
        }
        Ok(())
    }

    pub fn nontrivial(&self) -> bool {
        self.interleaved || self.fault_in_flight
    }
    pub fn interleaved(&self) -> bool {
        self.interleaved
    }
    pub fn cfg(&self) -> &Cfg {
        &self.cfg
    }
}

pub fn tally(stats: &mut Stats, i: &StepInfo) {
    stats.inc("executions");
    match i.kind {
        "deliver" => {
            stats.inc("netsim.deliveries");
            if i.slicer_rejected {
                stats.inc("netsim.slicer_rejected_damaged_frame");
            }
            if i.not_fragment {
                stats.inc("probe.passthrough_non_fragment");
            }
            if i.new_stream && i.error.is_none() && !i.not_fragment && !i.slicer_rejected {
                stats.inc("netsim.streams_opened");
            }
            if i.duplicate {
                stats.inc("probe.duplicate_before_completion");
            }
            if i.overlap && !i.duplicate {
                stats.inc("probe.partial_overlap");
            }
            if i.completed.is_some() {
                stats.inc("netsim.completions");
                stats.inc(if i.len_source_as_ip_version {
                    "netsim.completions_len_source_names_ip_length_field"
                } else {
                    "netsim.completions_len_source_other"
                });
                if i.completed_by_non_last {
                    stats.inc("probe.completed_by_non_last_fragment");
                }
                if i.completed_by_overlap {
                    stats.inc("probe.completed_by_overlapping_fragment");
                }
                if i.recycled_larger {
                    stats.inc("probe.recycled_buffer_larger_than_datagram");
                }
            }
            if let Some(c) = i.conflict_shape {
                if i.error == Some("conflicting_end") {
                    stats.inc(&format!("probe.conflicting_end_{c}"));
                }
            }
            if i.grew {
                stats.inc("probe.stream_grew_beyond_initial_capacity");
            }
            if i.stream_1025 {
                stats.inc("probe.more_than_1024_simultaneous_streams");
            }
            if let Some(d) = i.sibling_dim {
                stats.inc(&format!("probe.active_streams_differ_only_in_{d}"));
            }
            if let Some(e) = i.error {
                stats.inc(&format!("probe.error_{e}"));
                if i.new_stream {
                    stats.inc(&format!("probe.error_on_first_fragment_{e}"));
                }
            }
        }
        "return" => stats.inc("netsim.buffers_returned"),
        _ => {}
    }
}
