//! Reference reassembler: the specification of "covered" and "complete".
//! Coverage is a per-byte bitmap, not merged ranges; nothing here is shared
//! with the crate.

use std::collections::BTreeMap;

pub type Ts = (u64, u64);

/// Stream identity as the property states it: VLAN ids, IP version,
/// addresses, identification, protocol, channel.
#[derive(Clone, Debug, PartialEq, Eq, PartialOrd, Ord, Hash)]
pub struct Key {
    pub vlans: Vec<u16>,
    pub v6: bool,
    pub src: Vec<u8>,
    pub dst: Vec<u8>,
    pub id: u32,
    pub proto: u8,
    pub channel: u32,
}

#[derive(Clone, Debug, PartialEq, Eq)]
pub enum ExpErr {
    SegmentTooBig { off8: u16, len: usize },
    Unaligned { off8: u16, len: usize },
    /// previous_end None = any value accepted (end not yet announced)
    ConflictingEnd { previous_end: Option<u16>, conflicting_end: u16 },
}

#[derive(Clone, Debug)]
pub struct Stream {
    /// first value delivered per offset
    pub data: Vec<u8>,
    pub covered: Vec<bool>,
    /// further distinct values delivered for an offset (corrupted duplicates)
    pub alts: BTreeMap<usize, Vec<u8>>,
    pub end: Option<u32>,
    pub max_end: u32,
    /// timestamps of the deliveries this stream accepted
    pub tss: Vec<Ts>,
    pub accepted: usize,
    pub overlapped: bool,
    /// length of the first accepted fragment
    pub first_len: usize,
    /// start offsets of the accepted fragments in arrival order
    pub order: Vec<u32>,
}

impl Stream {
    pub fn new() -> Stream {
        Stream {
            data: Vec::new(),
            covered: Vec::new(),
            alts: BTreeMap::new(),
            end: None,
            max_end: 0,
            tss: Vec::new(),
            accepted: 0,
            overlapped: false,
            first_len: 0,
            order: Vec::new(),
        }
    }
    /// Records an accepted fragment. Returns (overlapped existing bytes,
    /// brought no new byte).
    pub fn apply(&mut self, off8: u16, more: bool, bytes: &[u8], ts: Ts) -> (bool, bool) {
        let start = usize::from(off8) * 8;
        let end = start + bytes.len();
        if self.data.len() < end {
            self.data.resize(end, 0);
            self.covered.resize(end, false);
        }
        let mut overlapped = false;
        let mut all_dup = !bytes.is_empty();
        for (i, b) in bytes.iter().enumerate() {
            let p = start + i;
            if self.covered[p] {
                overlapped = true;
                if self.data[p] != *b {
                    let a = self.alts.entry(p).or_default();
                    if !a.contains(b) {
                        a.push(*b);
                    }
                }
            } else {
                all_dup = false;
                self.covered[p] = true;
                self.data[p] = *b;
            }
        }
        if overlapped {
            self.overlapped = true;
        }
        if !more {
            self.end = Some(end as u32);
        }
        if end as u32 > self.max_end {
            self.max_end = end as u32;
        }
        self.tss.push(ts);
        if self.accepted == 0 {
            self.first_len = bytes.len();
        }
        if self.order.len() < 16 {
            self.order.push(start as u32);
        }
        self.accepted += 1;
        (overlapped, all_dup)
    }

    pub fn complete(&self) -> bool {
        match self.end {
            Some(e) => {
                let e = e as usize;
                self.covered.len() >= e && self.covered[..e].iter().all(|c| *c)
            }
            None => false,
        }
    }
    /// number of maximal uncovered intervals below max(end, max_end)
    pub fn gaps(&self) -> usize {
        let lim = self.end.unwrap_or(self.max_end) as usize;
        let mut gaps = 0;
        let mut in_gap = false;
        for i in 0..lim {
            let c = self.covered.get(i).copied().unwrap_or(false);
            if !c && !in_gap {
                gaps += 1;
            }
            in_gap = !c;
        }
        gaps
    }
    /// Permutation pattern of the arrival order (ranks of the start offsets
    /// of the first 16 accepted fragments; duplicates share a rank).
    pub fn arrival_signature(&self) -> u64 {
        let mut sorted = self.order.clone();
        sorted.sort_unstable();
        sorted.dedup();
        let mut d = crate::prng::Digest::new();
        for o in &self.order {
            d.u64(sorted.binary_search(o).unwrap_or(0) as u64);
        }
        d.finish()
    }

    /// is `v` a value that was delivered for offset `i`?
    pub fn value_ok(&self, i: usize, v: u8) -> bool {
        if self.data.get(i) == Some(&v) {
            return true;
        }
        self.alts.get(&i).map(|a| a.contains(&v)).unwrap_or(false)
    }
}

/// The documented rejections that apply to a fragment, given the stream state.
pub fn applicable_errors(s: Option<&Stream>, off8: u16, more: bool, len: usize) -> Vec<ExpErr> {
    let mut v = Vec::new();
    let start = usize::from(off8) * 8;
    if len > 65_535 || start + len > 65_535 {
        v.push(ExpErr::SegmentTooBig { off8, len });
        // the remaining rules need a representable end
        if more && len % 8 != 0 {
            v.push(ExpErr::Unaligned { off8, len });
        }
        return v;
    }
    let frag_end = (start + len) as u32;
    if more && len % 8 != 0 {
        v.push(ExpErr::Unaligned { off8, len });
    }
    if let Some(s) = s {
        match s.end {
            Some(e) => {
                if frag_end > e || (!more && frag_end != e) {
                    v.push(ExpErr::ConflictingEnd {
                        previous_end: Some(e as u16),
                        conflicting_end: frag_end as u16,
                    });
                }
            }
            None => {
                if !more && frag_end < s.max_end {
                    v.push(ExpErr::ConflictingEnd {
                        previous_end: None,
                        conflicting_end: frag_end as u16,
                    });
                }
            }
        }
    }
    v
}

#[derive(Clone, Debug)]
pub enum Expect {
    /// one of these errors, stream unchanged
    Err(Vec<ExpErr>),
    /// fragment accepted, datagram still incomplete
    Pending,
    /// datagram complete: the finished stream is handed over for comparison
    Complete(Box<Stream>),
}

#[derive(Clone, Debug, Default)]
pub struct Model {
    pub streams: BTreeMap<Key, Stream>,
}

pub struct DeliverInfo {
    pub existed: bool,
    pub overlapped_existing: bool,
    pub was_duplicate: bool,
}

impl Model {
    pub fn new() -> Model {
        Model::default()
    }

    pub fn exists(&self, k: &Key) -> bool {
        self.streams.contains_key(k)
    }

    pub fn deliver(
        &mut self,
        k: &Key,
        off8: u16,
        more: bool,
        bytes: &[u8],
        ts: Ts,
    ) -> (Expect, DeliverInfo) {
        let existing = self.streams.get(k);
        let mut info = DeliverInfo {
            existed: existing.is_some(),
            overlapped_existing: false,
            was_duplicate: false,
        };
        let errs = applicable_errors(existing, off8, more, bytes.len());
        if !errs.is_empty() {
            return (Expect::Err(errs), info);
        }
        let s = self.streams.entry(k.clone()).or_insert_with(Stream::new);
        let (overlapped, dup) = s.apply(off8, more, bytes, ts);
        info.overlapped_existing = overlapped;
        info.was_duplicate = dup;
        if s.complete() {
            let done = self.streams.remove(k).unwrap();
            (Expect::Complete(Box::new(done)), info)
        } else {
            (Expect::Pending, info)
        }
    }

    /// Key of the stream that accepted the delivery with timestamp `ts`.
    pub fn owner_of(&self, ts: &Ts) -> Option<Key> {
        self.streams
            .iter()
            .find(|(_, s)| s.tss.contains(ts))
            .map(|(k, _)| k.clone())
    }

    /// Abstract state signature: multiset of (gaps, end known) per stream.
    pub fn abstract_state(&self) -> u64 {
        let mut v: Vec<(usize, bool)> = self
            .streams
            .values()
            .map(|s| (s.gaps().min(7), s.end.is_some()))
            .collect();
        v.sort_unstable();
        let mut d = crate::prng::Digest::new();
        for (g, e) in v {
            d.u64(g as u64);
            d.u64(u64::from(e));
        }
        d.finish()
    }
}
