//! netsim (stub while iosim is brought up)
use crate::json::J;
use crate::stats::{Stats, Violation};

pub fn run_c11(_seed: u64, _run: u64, _config: &str, _stats: &mut Stats) -> (Vec<Violation>, u64) {
    (Vec::new(), 0)
}
pub fn exec_case(_case: &J) -> Result<Result<(), (String, String)>, String> {
    Err("netsim not built yet".into())
}
pub fn shrink_candidates(_case: &J) -> Vec<J> {
    Vec::new()
}
pub fn signature(v: &Violation) -> String {
    format!("netsim:{}", v.class)
}
