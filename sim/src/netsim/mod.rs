//! `netsim`: capture pipeline with a hostile network around the real slicer
//! and IpDefragPool, in lock-step with a reference reassembler (C11).

pub mod bufsim;
pub mod encode;
pub mod history;
pub mod model;
pub mod world;

use crate::json::J;
use crate::prng::{fnv64, mix, Digest, Rng};
use crate::stats::{Stats, Violation};
use history::*;

pub const ENGINE_ID: u64 = 0x4e_45_54;

pub type Fail = (String, String);

fn guarded<T>(f: impl FnOnce() -> T) -> Result<T, Fail> {
    let prev = crate::runner::set_guarded(true);
    let res = std::panic::catch_unwind(std::panic::AssertUnwindSafe(f));
    crate::runner::set_guarded(prev);
    // a panic may have left the allocator armed
    crate::alloc_seam::disarm();
    res.map_err(|p| {
        let msg = if let Some(s) = p.downcast_ref::<&str>() {
            s.to_string()
        } else if let Some(s) = p.downcast_ref::<String>() {
            s.clone()
        } else {
            "panic".to_string()
        };
        ("panic".to_string(), format!("panicked: {msg}"))
    })
}

fn pool_case(ops: &[Op], must_return: &[u64]) -> J {
    J::obj()
        .set("engine", J::s("netsim"))
        .set("mode", J::s("pool"))
        .set(
            "must_return",
            J::Arr(must_return.iter().map(|d| J::s(&format!("{d:016x}"))).collect()),
        )
        .set("ops", J::Arr(ops.iter().map(|o| o.to_json()).collect()))
}

fn buf_case(ops: &[bufsim::BOp]) -> J {
    J::obj()
        .set("engine", J::s("netsim"))
        .set("mode", J::s("buf"))
        .set("ops", J::Arr(ops.iter().map(|o| o.to_json()).collect()))
}

pub fn run_c11(seed: u64, run: u64, config: &str, stats: &mut Stats) -> (Vec<Violation>, u64) {
    let rs = mix(&[seed, ENGINE_ID, fnv64(config.as_bytes()), run]);
    if config == "buf" || config == "buf-tiny" {
        let ops = bufsim::gen_buf_history(&mut Rng::new(rs), config == "buf-tiny");
        if crate::runner::tracing() {
            crate::runner::announce_case(&buf_case(&ops));
        }
        let mut log = Digest::new();
        let res = guarded(|| bufsim::run_buf_history(&ops, &mut log));
        let mut v = Vec::new();
        match res {
            Ok(Ok(st)) => {
                bufsim::tally_buf(stats, &st);
                if st.errors > 0 || st.recycles > 0 || st.max_sections >= 2 {
                    stats.mark("nontrivial", log.finish());
                }
                stats.mark("histories", log.finish());
                if run % 211 == 0 {
                    stats.sample(buf_case(&ops));
                }
            }
            Ok(Err((i, f))) => v.push(Violation {
                property: "C11".into(),
                class: f.0,
                detail: format!("{} (operation {i} of {})", f.1, ops.len()),
                case: buf_case(&ops[..=i]),
            }),
            Err(f) => v.push(Violation {
                property: "C11".into(),
                class: f.0,
                detail: f.1,
                case: buf_case(&ops),
            }),
        }
        return (v, log.finish());
    }
    let mut v = Vec::new();
    let mut digest = 0u64;
    // the world is built and driven inside the guard: the real slicer and
    // pool run on every delivery
    let mut local = Stats::new();
    let res = guarded(|| {
        let mut w = world::World::new(rs, config);
        crate::runner::announce_case_header(&pool_case(&[], &[]));
        let r = w.run(&mut local);
        (w, r)
    });
    match res {
        Ok((w, Ok(()))) => {
            digest = w.exec.log.finish();
            let fin = w.final_checks(&mut local);
            local.inc(&format!("netsim.runs_{}", w.cfg().name));
            if w.nontrivial() {
                local.mark("nontrivial", digest);
            }
            if w.interleaved() {
                local.inc("probe.streams_interleaved");
            }
            local.mark("histories", digest);
            local.mark("abstract_pool_states", w.exec.model.abstract_state());
            for a in &w.exec.abstract_states {
                local.mark("abstract_pool_states", *a);
            }
            for a in &w.exec.arrival_orders {
                local.mark("arrival_order_patterns", *a);
            }
            local.mark("cross_stream_interleavings", w.exec.interleaving.finish());
            if let Err(f) = fin {
                // Lock-step agreement with the model at every step already
                // decides the property for this history. A datagram that the
                // world believes must have come back although the model never
                // completed it is an inconsistency of the world layer (e.g. a
                // heal point in front of in-flight traffic), not a verdict on
                // the pool: counted and warned about, never a VIOLATION.
                local.inc("harness.world_liveness_inconsistency");
                if local.samples.len() < 6 {
                    local.samples.push(
                        J::obj()
                            .set("engine", J::s("netsim"))
                            .set("mode", J::s("world-inconsistency"))
                            .set("run", J::u(run))
                            .set("config", J::s(config))
                            .set("detail", J::s(&f.1)),
                    );
                }
            }
            if run % 499 == 0 {
                let n = w.ops.len().min(12);
                local.sample(
                    pool_case(&w.ops[..n], &[])
                        .set("note", J::s("first operations of one run"))
                        .set("ops_in_run", J::u(w.ops.len() as u64)),
                );
            }
        }
        Ok((w, Err((i, f)))) => {
            digest = w.exec.log.finish();
            v.push(Violation {
                property: "C11".into(),
                class: f.0,
                detail: format!("{} (operation {i} of the history)", f.1),
                case: pool_case(&w.ops[..=i.min(w.ops.len() - 1)], &[]),
            });
        }
        Err(f) => {
            // a panic inside the run: rebuild the history up to the panic by
            // re-running the world with recording only
            let ops = recorded_ops_until_panic(rs, config);
            v.push(Violation {
                property: "C11".into(),
                class: f.0,
                detail: f.1,
                case: pool_case(&ops, &[]),
            });
        }
    }
    stats.merge(local);
    (v, digest)
}

thread_local! {
    static LAST_OPS: std::cell::RefCell<Vec<Op>> = const { std::cell::RefCell::new(Vec::new()) };
}

/// Re-runs a world whose run panicked, keeping the operation list alive
/// outside the unwinding frame.
fn recorded_ops_until_panic(rs: u64, config: &str) -> Vec<Op> {
    let prev = crate::runner::set_guarded(true);
    let r = std::panic::catch_unwind(std::panic::AssertUnwindSafe(|| {
        let mut w = world::World::new(rs, config);
        w.record_to_thread_local = true;
        let mut s = Stats::new();
        let _ = w.run(&mut s);
    }));
    crate::runner::set_guarded(prev);
    crate::alloc_seam::disarm();
    let _ = r;
    LAST_OPS.with(|l| std::mem::take(&mut *l.borrow_mut()))
}

pub fn note_op(op: &Op) {
    LAST_OPS.with(|l| l.borrow_mut().push(op.clone()));
}

pub fn clear_noted_ops() {
    LAST_OPS.with(|l| l.borrow_mut().clear());
}

pub fn exec_case(case: &J) -> Result<Result<(), Fail>, String> {
    match case.str_of("mode")? {
        "pool" => {
            let mut ops = Vec::new();
            for o in case.arr_of("ops")? {
                ops.push(Op::from_json(o)?);
            }
            let n = ops.len();
            let r = guarded(|| run_history(&ops));
            Ok(match r {
                Ok(Ok(_)) => Ok(()),
                Ok(Err((i, f))) => Err((f.0, format!("{} (operation {i} of {n})", f.1))),
                Err(f) => Err(f),
            })
        }
        "buf" => {
            let mut ops = Vec::new();
            for o in case.arr_of("ops")? {
                ops.push(bufsim::BOp::from_json(o)?);
            }
            let n = ops.len();
            let mut log = Digest::new();
            let r = guarded(|| bufsim::run_buf_history(&ops, &mut log));
            Ok(match r {
                Ok(Ok(_)) => Ok(()),
                Ok(Err((i, f))) => Err((f.0, format!("{} (operation {i} of {n})", f.1))),
                Err(f) => Err(f),
            })
        }
        other => Err(format!("unknown netsim mode '{other}'")),
    }
}

/// Delta debugging candidates over the operation list: drop halves, quarters,
/// ... single operations (every sub-history is a legal input of the model),
/// then simplify deliveries (drop the ground truth annotations last).
pub fn shrink_candidates(case: &J) -> Vec<J> {
    let Ok(ops) = case.arr_of("ops") else {
        return Vec::new();
    };
    let mut out = Vec::new();
    let n = ops.len();
    if n <= 1 {
        return out;
    }
    let with_ops = |ops: Vec<J>| {
        let mut c = case.clone();
        c.put("ops", J::Arr(ops));
        c
    };
    // the failing operation is the last one: candidates always keep it
    let mut chunk = n / 2;
    while chunk >= 1 {
        let mut start = 0;
        while start < n - 1 {
            let end = (start + chunk).min(n - 1);
            let mut v = Vec::with_capacity(n - (end - start));
            v.extend_from_slice(&ops[..start]);
            v.extend_from_slice(&ops[end..]);
            out.push(with_ops(v));
            start += chunk;
            if out.len() > 600 {
                return out;
            }
        }
        if chunk == 1 {
            break;
        }
        chunk /= 2;
    }
    out
}

pub fn signature(v: &Violation) -> String {
    // identified by the shape of the minimised history: mode, class and the
    // sequence of operation kinds
    let mode = v.case.str_of("mode").unwrap_or("?");
    let kinds: Vec<&str> = v
        .case
        .arr_of("ops")
        .map(|a| a.iter().filter_map(|o| o.str_of("op").ok()).collect())
        .unwrap_or_default();
    format!("netsim:{mode}:{}:{}", v.class, kinds.join(","))
}
