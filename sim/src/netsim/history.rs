//! History layer: executes an explicit receiver-side operation list against
//! the real slicer + IpDefragPool and the reference model in lock-step.
//! Replay files contain exactly such a list; executing it needs no PRNG.

use super::model::*;
use crate::json::{hex, unhex, J};
use crate::prng::Digest;
use etherparse::defrag::{IpDefragError, IpDefragPayloadVec, IpDefragPool};
use etherparse::*;
use std::cell::RefCell;

pub type Fail = (String, String);
pub type Pool = IpDefragPool<Ts, u32>;

fn fail<T>(class: &str, detail: String) -> Result<T, Fail> {
    Err((class.to_string(), detail))
}

/// What the sender knows about an undamaged fragment frame.
#[derive(Clone, Debug, PartialEq)]
pub struct Truth {
    pub key: Key,
    pub off8: u16,
    pub more: bool,
    pub payload_at: usize,
    pub payload_len: usize,
}

#[derive(Clone, Debug, PartialEq)]
pub enum Op {
    Deliver {
        entry: String,
        channel: u32,
        ts: Ts,
        frame: Vec<u8>,
        alloc_fail: bool,
        /// Some = frame of a fragment the network did not damage
        truth: Option<Truth>,
        /// undamaged background frame: the pool must pass it through
        passthrough: bool,
    },
    /// retain(|t| *t != ts)
    Evict { ts: Ts },
    /// retain(|t| t.0 >= cutoff)  (multi-victim)
    BulkEvict { cutoff: u64 },
    /// return the idx-th held result buffer to the pool
    Return { idx: usize },
    /// return a buffer the pool never handed out (marker filled)
    ReturnForeign { len: usize, cap: usize },
    Restart,
    Checkpoint,
    Rollback,
}

fn ts_json(t: &Ts) -> J {
    J::Arr(vec![J::u(t.0), J::u(t.1)])
}
fn ts_from(j: &J) -> Result<Ts, String> {
    let a = j.as_arr().ok_or("ts")?;
    Ok((
        a.first().and_then(|v| v.as_u64()).ok_or("ts[0]")?,
        a.get(1).and_then(|v| v.as_u64()).ok_or("ts[1]")?,
    ))
}

impl Key {
    pub fn to_json(&self) -> J {
        J::obj()
            .set("vlans", J::Arr(self.vlans.iter().map(|v| J::u(u64::from(*v))).collect()))
            .set("v6", J::Bool(self.v6))
            .set("src", J::s(&hex(&self.src)))
            .set("dst", J::s(&hex(&self.dst)))
            .set("id", J::u(u64::from(self.id)))
            .set("proto", J::u(u64::from(self.proto)))
            .set("channel", J::u(u64::from(self.channel)))
    }
    pub fn from_json(j: &J) -> Result<Key, String> {
        Ok(Key {
            vlans: j
                .arr_of("vlans")?
                .iter()
                .map(|v| v.as_u64().unwrap_or(0) as u16)
                .collect(),
            v6: j.bool_of("v6")?,
            src: unhex(j.str_of("src")?)?,
            dst: unhex(j.str_of("dst")?)?,
            id: j.u64_of("id")? as u32,
            proto: j.u64_of("proto")? as u8,
            channel: j.u64_of("channel")? as u32,
        })
    }
    pub fn short(&self) -> String {
        format!(
            "{}:vlans{:?}:id{}:proto{}:chan{}:src{}",
            if self.v6 { "v6" } else { "v4" },
            self.vlans,
            self.id,
            self.proto,
            self.channel,
            hex(&self.src[..self.src.len().min(4)])
        )
    }
}

impl Op {
    pub fn to_json(&self) -> J {
        match self {
            Op::Deliver {
                entry,
                channel,
                ts,
                frame,
                alloc_fail,
                truth,
                passthrough,
            } => {
                let mut j = J::obj()
                    .set("op", J::s("deliver"))
                    .set("entry", J::s(entry))
                    .set("channel", J::u(u64::from(*channel)))
                    .set("ts", ts_json(ts))
                    .set("frame", J::s(&hex(frame)));
                if *alloc_fail {
                    j.put("alloc_fail", J::Bool(true));
                }
                if *passthrough {
                    j.put("passthrough", J::Bool(true));
                }
                if let Some(t) = truth {
                    j.put(
                        "truth",
                        J::obj()
                            .set("key", t.key.to_json())
                            .set("off8", J::u(u64::from(t.off8)))
                            .set("more", J::Bool(t.more))
                            .set("payload_at", J::u(t.payload_at as u64))
                            .set("payload_len", J::u(t.payload_len as u64)),
                    );
                }
                j
            }
            Op::Evict { ts } => J::obj().set("op", J::s("evict")).set("ts", ts_json(ts)),
            Op::BulkEvict { cutoff } => J::obj()
                .set("op", J::s("bulk_evict"))
                .set("cutoff", J::u(*cutoff)),
            Op::Return { idx } => J::obj().set("op", J::s("return")).set("idx", J::u(*idx as u64)),
            Op::ReturnForeign { len, cap } => J::obj()
                .set("op", J::s("return_foreign"))
                .set("len", J::u(*len as u64))
                .set("cap", J::u(*cap as u64)),
            Op::Restart => J::obj().set("op", J::s("restart")),
            Op::Checkpoint => J::obj().set("op", J::s("checkpoint")),
            Op::Rollback => J::obj().set("op", J::s("rollback")),
        }
    }
    pub fn from_json(j: &J) -> Result<Op, String> {
        match j.str_of("op")? {
            "deliver" => Ok(Op::Deliver {
                entry: j.str_of("entry")?.to_string(),
                channel: j.u64_of("channel")? as u32,
                ts: ts_from(j.get("ts").ok_or("ts")?)?,
                frame: unhex(j.str_of("frame")?)?,
                alloc_fail: j.get("alloc_fail").and_then(|b| b.as_bool()).unwrap_or(false),
                passthrough: j.get("passthrough").and_then(|b| b.as_bool()).unwrap_or(false),
                truth: match j.get("truth") {
                    Some(t) => Some(Truth {
                        key: Key::from_json(t.get("key").ok_or("truth.key")?)?,
                        off8: t.u64_of("off8")? as u16,
                        more: t.bool_of("more")?,
                        payload_at: t.u64_of("payload_at")? as usize,
                        payload_len: t.u64_of("payload_len")? as usize,
                    }),
                    None => None,
                },
            }),
            "evict" => Ok(Op::Evict {
                ts: ts_from(j.get("ts").ok_or("ts")?)?,
            }),
            "bulk_evict" => Ok(Op::BulkEvict {
                cutoff: j.u64_of("cutoff")?,
            }),
            "return" => Ok(Op::Return {
                idx: j.u64_of("idx")? as usize,
            }),
            "return_foreign" => Ok(Op::ReturnForeign {
                len: j.u64_of("len")? as usize,
                cap: j.u64_of("cap")? as usize,
            }),
            "restart" => Ok(Op::Restart),
            "checkpoint" => Ok(Op::Checkpoint),
            "rollback" => Ok(Op::Rollback),
            other => Err(format!("unknown netsim op '{other}'")),
        }
    }
}

/// The fragment descriptor of a sliced packet, decoded by harness code from
/// the raw header bytes the slicer handed out (not through the accessors the
/// pool itself uses).
pub struct Desc<'a> {
    pub key: Key,
    pub off8: u16,
    pub more: bool,
    pub bytes: &'a [u8],
    pub v4: bool,
}

pub fn describe<'a>(p: &SlicedPacket<'a>, channel: u32) -> Option<Desc<'a>> {
    let mut vlans = Vec::new();
    for e in &p.link_exts {
        if let LinkExtSlice::Vlan(v) = e {
            let b = v.slice();
            vlans.push(u16::from_be_bytes([b[0] & 0x0f, b[1]]));
        }
    }
    match &p.net {
        Some(NetSlice::Ipv4(v4)) => {
            let h = v4.header().slice();
            let fl = u16::from_be_bytes([h[6], h[7]]);
            let more = fl & 0x2000 != 0;
            let off8 = fl & 0x1fff;
            if !more && off8 == 0 {
                return None;
            }
            let pl = v4.payload();
            Some(Desc {
                key: Key {
                    vlans,
                    v6: false,
                    src: h[12..16].to_vec(),
                    dst: h[16..20].to_vec(),
                    id: u32::from(u16::from_be_bytes([h[4], h[5]])),
                    proto: pl.ip_number.0,
                    channel,
                },
                off8,
                more,
                bytes: pl.payload,
                v4: true,
            })
        }
        Some(NetSlice::Ipv6(v6)) => {
            let h = v6.header().slice();
            let exts = v6.extensions();
            let mut next = exts.first_header()?.0;
            let mut rest = exts.slice();
            // walk the raw extension bytes to the first fragment header
            let frag = loop {
                match next {
                    44 => {
                        if rest.len() < 8 {
                            return None;
                        }
                        break &rest[..8];
                    }
                    0 | 43 | 60 | 135 | 139 | 140 => {
                        if rest.len() < 2 {
                            return None;
                        }
                        let l = (usize::from(rest[1]) + 1) * 8;
                        if rest.len() < l {
                            return None;
                        }
                        next = rest[0];
                        rest = &rest[l..];
                    }
                    51 => {
                        if rest.len() < 2 {
                            return None;
                        }
                        let l = (usize::from(rest[1]) + 2) * 4;
                        if rest.len() < l {
                            return None;
                        }
                        next = rest[0];
                        rest = &rest[l..];
                    }
                    _ => return None,
                }
            };
            let fl = u16::from_be_bytes([frag[2], frag[3]]);
            let more = fl & 1 != 0;
            let off8 = fl >> 3;
            if !more && off8 == 0 {
                return None;
            }
            let pl = v6.payload();
            Some(Desc {
                key: Key {
                    vlans,
                    v6: true,
                    src: h[8..24].to_vec(),
                    dst: h[24..40].to_vec(),
                    id: u32::from_be_bytes([frag[4], frag[5], frag[6], frag[7]]),
                    proto: pl.ip_number.0,
                    channel,
                },
                off8,
                more,
                bytes: pl.payload,
                v4: false,
            })
        }
        _ => None,
    }
}

pub fn slice_frame<'a>(
    entry: &str,
    frame: &'a [u8],
) -> Result<SlicedPacket<'a>, etherparse::err::packet::SliceError> {
    match entry {
        "eth" => SlicedPacket::from_ethernet(frame),
        "sll" => SlicedPacket::from_linux_sll(frame),
        e if e.starts_with("et:") => {
            let t = u16::from_str_radix(&e[3..], 16).unwrap_or(0);
            SlicedPacket::from_ether_type(EtherType(t), frame)
        }
        _ => SlicedPacket::from_ip(frame),
    }
}

/// What happened in one step (fed to statistics and the event log digest).
#[derive(Debug, Default, Clone)]
pub struct StepInfo {
    pub kind: &'static str,
    pub completed: Option<(Key, usize)>,
    pub error: Option<&'static str>,
    pub slicer_rejected: bool,
    pub not_fragment: bool,
    pub new_stream: bool,
    pub duplicate: bool,
    pub overlap: bool,
    pub completed_by_non_last: bool,
    pub completed_by_overlap: bool,
    pub alloc_failed: bool,
    pub evicted: usize,
    pub recycled_larger: bool,
    pub rollback_streams_delta: i64,
    /// stream key of a delivered fragment
    pub key: Option<Key>,
    pub evicted_keys: Vec<Key>,
    /// which shape of ConflictingEnd applied
    pub conflict_shape: Option<&'static str>,
    /// the accepted fragment ends beyond twice the first fragment's length
    /// (initial capacity of a fresh buffer): growth path
    pub grew: bool,
    /// the new stream differs from another active stream in exactly this
    /// dimension of the key
    pub sibling_dim: Option<&'static str>,
    pub len_source_as_ip_version: bool,
    /// this delivery opened the 1025th simultaneous stream
    pub stream_1025: bool,
}

#[derive(Clone)]
struct Snapshot {
    pool: Pool,
    model: Model,
}

pub struct Exec {
    pub pool: Pool,
    pub model: Model,
    pub held: Vec<IpDefragPayloadVec>,
    snapshot: Option<Snapshot>,
    pub log: Digest,
    pub steps: usize,
    /// capacities of buffers returned to the pool (statistics only)
    pub returned_caps: Vec<usize>,
    pub completions: usize,
    /// reach measures (statistics only)
    stream_numbers: std::collections::BTreeMap<Key, u32>,
    pub interleaving: Digest,
    pub arrival_orders: Vec<u64>,
    pub abstract_states: Vec<u64>,
}

fn err_name(e: &IpDefragError) -> &'static str {
    match e {
        IpDefragError::UnalignedFragmentPayloadLen { .. } => "unaligned",
        IpDefragError::SegmentTooBig { .. } => "segment_too_big",
        IpDefragError::ConflictingEnd { .. } => "conflicting_end",
        IpDefragError::AllocationFailure { .. } => "allocation_failure",
    }
}

fn err_matches(e: &IpDefragError, x: &ExpErr) -> bool {
    match (e, x) {
        (
            IpDefragError::SegmentTooBig {
                offset,
                payload_len,
                max,
            },
            ExpErr::SegmentTooBig { off8, len },
        ) => offset.value() == *off8 && payload_len == len && *max == 65_535,
        (
            IpDefragError::UnalignedFragmentPayloadLen {
                offset,
                payload_len,
            },
            ExpErr::Unaligned { off8, len },
        ) => offset.value() == *off8 && payload_len == len,
        (
            IpDefragError::ConflictingEnd {
                previous_end,
                conflicting_end,
            },
            ExpErr::ConflictingEnd {
                previous_end: pe,
                conflicting_end: ce,
            },
        ) => conflicting_end == ce && pe.map(|p| p == *previous_end).unwrap_or(true),
        _ => false,
    }
}

impl Exec {
    pub fn new() -> Exec {
        Exec {
            pool: Pool::new(),
            model: Model::new(),
            held: Vec::new(),
            snapshot: None,
            log: Digest::new(),
            steps: 0,
            returned_caps: Vec::new(),
            completions: 0,
            stream_numbers: Default::default(),
            interleaving: Digest::new(),
            arrival_orders: Vec::new(),
            abstract_states: Vec::new(),
        }
    }

    /// Timestamps the pool presents to a retain predicate (as a sorted set);
    /// the observing call rejects nothing and therefore changes nothing.
    pub fn presented(&mut self) -> Vec<Ts> {
        let seen: RefCell<Vec<Ts>> = RefCell::new(Vec::new());
        self.pool.retain(|t| {
            seen.borrow_mut().push(*t);
            true
        });
        let mut v = seen.into_inner();
        v.sort_unstable();
        v.dedup();
        v
    }

    fn check_stream_count(&self, after: &str) -> Result<(), Fail> {
        let (active, _, _) = self.pool.verif_stats();
        if active != self.model.streams.len() {
            return fail(
                "stream-count-mismatch",
                format!(
                    "after {after}: the pool holds {active} partial streams, the reference model {}",
                    self.model.streams.len()
                ),
            );
        }
        Ok(())
    }

    /// Every presented timestamp must belong to exactly one model stream and
    /// every model stream must be presented exactly once.
    fn check_presented(&mut self, after: &str) -> Result<Vec<(Ts, Key)>, Fail> {
        let p = self.presented();
        let mut owners = Vec::new();
        for t in &p {
            match self.model.owner_of(t) {
                Some(k) => owners.push((*t, k)),
                None => {
                    return fail(
                        "unknown-timestamp-presented",
                        format!("after {after}: the pool presents timestamp {t:?} which no active stream of the model received"),
                    )
                }
            }
        }
        let mut keys: Vec<&Key> = owners.iter().map(|o| &o.1).collect();
        keys.sort();
        keys.dedup();
        if keys.len() != owners.len() || owners.len() != self.model.streams.len() {
            return fail(
                "presented-streams-mismatch",
                format!(
                    "after {after}: the pool presents {} timestamps for {} distinct streams, the model has {} streams",
                    owners.len(),
                    keys.len(),
                    self.model.streams.len()
                ),
            );
        }
        Ok(owners)
    }

    pub fn apply(&mut self, op: &Op) -> Result<StepInfo, Fail> {
        self.steps += 1;
        let mut info = StepInfo::default();
        match op {
            Op::Deliver {
                entry,
                channel,
                ts,
                frame,
                alloc_fail,
                truth,
                passthrough,
            } => {
                info.kind = "deliver";
                self.log.str("deliver");
                self.log.u64(ts.0);
                self.log.u64(ts.1);
                let sliced = match slice_frame(entry, frame) {
                    Ok(s) => s,
                    Err(e) => {
                        if let Some(t) = truth {
                            return fail(
                                "slicer-rejected-fragment",
                                format!("undamaged fragment frame of stream {} (offset {}, more {}) rejected by the slicer: {e:?}", t.key.short(), t.off8, t.more),
                            );
                        }
                        if *passthrough {
                            return fail(
                                "slicer-rejected-background",
                                format!("undamaged background frame rejected by the slicer: {e:?}"),
                            );
                        }
                        info.slicer_rejected = true;
                        self.log.str("slicer-reject");
                        return Ok(info);
                    }
                };
                let desc = describe(&sliced, *channel);
                if let Some(t) = truth {
                    // end-to-end: what the slicer shows is what the sender sent
                    let ok = match &desc {
                        Some(d) => {
                            d.key == t.key
                                && d.off8 == t.off8
                                && d.more == t.more
                                && d.bytes.len() == t.payload_len
                                && frame.get(t.payload_at..t.payload_at + t.payload_len)
                                    == Some(d.bytes)
                        }
                        None => false,
                    };
                    if !ok {
                        return fail(
                            "sliced-descriptor-mismatch",
                            format!(
                                "undamaged fragment of stream {} (offset {}, more {}, {} payload bytes) is presented by the slicer as {}",
                                t.key.short(),
                                t.off8,
                                t.more,
                                t.payload_len,
                                match &desc {
                                    Some(d) => format!("stream {} offset {} more {} with {} bytes", d.key.short(), d.off8, d.more, d.bytes.len()),
                                    None => "not a fragment".to_string(),
                                }
                            ),
                        );
                    }
                }
                if *passthrough && desc.is_some() {
                    return fail(
                        "background-seen-as-fragment",
                        "an unfragmented / non-IP background frame is presented by the slicer as a fragment".to_string(),
                    );
                }
                let arm = *alloc_fail
                    && desc
                        .as_ref()
                        .map(|d| self.model.exists(&d.key))
                        .unwrap_or(false);
                if arm {
                    crate::alloc_seam::arm(1);
                }
                let res = self.pool.process_sliced_packet(&sliced, *ts, *channel);
                let consumed = if arm {
                    crate::alloc_seam::disarm() == 0
                } else {
                    false
                };
                let Some(d) = desc else {
                    info.not_fragment = true;
                    self.log.str("passthrough");
                    return match res {
                        Ok(None) => self.check_stream_count("a non-fragment packet").map(|_| info),
                        other => fail(
                            "passthrough-not-none",
                            format!("a packet that is not a fragment made the pool return {}", render(&other)),
                        ),
                    };
                };
                if consumed {
                    info.alloc_failed = true;
                    self.log.str("alloc-fail");
                    return match res {
                        Err(IpDefragError::AllocationFailure { .. }) => {
                            if let Some(st) = self.model.streams.get_mut(&d.key) {
                                st.tss.push(*ts);
                            }
                            // the stream must be unchanged: the model does not record the fragment
                            self.check_stream_count("an allocation failure").map(|_| info)
                        }
                        other => fail(
                            "alloc-failure-not-reported",
                            format!("the allocation for a fragment of stream {} failed but the pool returned {}", d.key.short(), render(&other)),
                        ),
                    };
                }
                info.key = Some(d.key.clone());
                {
                    // cross-stream interleaving signature: sequence of stream
                    // numbers (by first appearance) over the deliveries
                    let n = self.stream_numbers.len() as u32;
                    let id = *self.stream_numbers.entry(d.key.clone()).or_insert(n);
                    self.interleaving.u64(u64::from(id));
                }
                if !self.model.exists(&d.key) {
                    info.sibling_dim = sibling_dimension(&self.model, &d.key);
                }
                let first_len = self.model.streams.get(&d.key).map(|s| s.first_len);
                let (expect, di) = self.model.deliver(&d.key, d.off8, d.more, d.bytes, *ts);
                if let (Some(fl), Expect::Pending | Expect::Complete(_)) = (first_len, &expect) {
                    if usize::from(d.off8) * 8 + d.bytes.len() > 2 * fl {
                        info.grew = true;
                    }
                }
                if let Expect::Err(a) = &expect {
                    for x in a {
                        if let ExpErr::ConflictingEnd { previous_end, conflicting_end } = x {
                            info.conflict_shape = Some(match previous_end {
                                None => "last_before_received_data",
                                Some(p) if conflicting_end > p => "beyond_known_end",
                                Some(_) => "second_last_with_smaller_end",
                            });
                        }
                    }
                }
                info.new_stream = !di.existed;
                info.duplicate = di.was_duplicate;
                info.overlap = di.overlapped_existing;
                let frag = format!(
                    "fragment [{}..{}) more={} of stream {}",
                    usize::from(d.off8) * 8,
                    usize::from(d.off8) * 8 + d.bytes.len(),
                    d.more,
                    d.key.short()
                );
                match (expect, res) {
                    (Expect::Err(applicable), Err(e)) => {
                        if applicable.iter().any(|x| err_matches(&e, x)) {
                            info.error = Some(err_name(&e));
                            self.log.str(err_name(&e));
                            // the property does not say which of a stream's
                            // deliveries the pool remembers: the time stamp
                            // of a rejected delivery is as good as any other
                            if let Some(st) = self.model.streams.get_mut(&d.key) {
                                st.tss.push(*ts);
                            }
                        } else {
                            return fail(
                                "wrong-error",
                                format!("{frag}: the pool returned {e:?}, applicable: {applicable:?}"),
                            );
                        }
                    }
                    (Expect::Err(applicable), Ok(r)) => {
                        return fail(
                            "inconsistent-fragment-accepted",
                            format!(
                                "{frag} must be rejected ({applicable:?}) but the pool returned Ok({})",
                                match r {
                                    Some(p) => format!("Some(payload of {} bytes)", p.payload.len()),
                                    None => "None".to_string(),
                                }
                            ),
                        );
                    }
                    (Expect::Pending, Ok(None)) => {
                        self.log.str("pending");
                    }
                    (Expect::Pending, Ok(Some(p))) => {
                        return fail(
                            "premature-or-spurious-result",
                            format!("{frag}: the datagram is still incomplete (model) but the pool returned a payload of {} bytes", p.payload.len()),
                        );
                    }
                    (Expect::Complete(s), Ok(Some(p))) => {
                        let end = s.end.unwrap() as usize;
                        if p.payload.len() != end {
                            return fail(
                                "payload-length-mismatch",
                                format!("{frag} completes the datagram: expected {end} bytes, the pool returned {}", p.payload.len()),
                            );
                        }
                        for (i, b) in p.payload.iter().enumerate() {
                            if !s.value_ok(i, *b) {
                                return fail(
                                    "payload-mismatch",
                                    format!("{frag} completes the datagram: byte {i} of the returned payload is {b:#04x}, which was never delivered for that offset of this stream (expected {:#04x})", s.data[i]),
                                );
                            }
                        }
                        if p.ip_number.0 != d.key.proto {
                            return fail(
                                "protocol-mismatch",
                                format!("{frag} completes the datagram: protocol {} expected, {} returned", d.key.proto, p.ip_number.0),
                            );
                        }
                        let ls = if d.v4 {
                            LenSource::Ipv4HeaderTotalLen
                        } else {
                            LenSource::Ipv6HeaderPayloadLen
                        };
                        // the property speaks of payload and protocol only;
                        // the length source is recorded, not asserted
                        info.len_source_as_ip_version = p.len_source == ls;
                        self.log.str("complete");
                        self.log.bytes(&p.payload);
                        if self.arrival_orders.len() < 64 {
                            self.arrival_orders.push(s.arrival_signature());
                        }
                        info.completed = Some((d.key.clone(), end));
                        info.completed_by_non_last = d.more;
                        info.completed_by_overlap = di.overlapped_existing;
                        if let Some(c) = self.returned_caps.last() {
                            if *c > end {
                                info.recycled_larger = true;
                            }
                        }
                        self.completions += 1;
                        self.held.push(p);
                    }
                    (Expect::Complete(s), Ok(None)) => {
                        return fail(
                            "completion-missed",
                            format!("{frag} supplies the last missing byte of a {}-byte datagram but the pool returned None", s.end.unwrap()),
                        );
                    }
                    (Expect::Pending | Expect::Complete(_), Err(e)) => {
                        return fail(
                            "consistent-fragment-rejected",
                            format!("{frag} is consistent with its stream but the pool returned {e:?}"),
                        );
                    }
                }
                self.check_stream_count("a delivery")?;
                if info.new_stream && self.model.streams.len() == 1025 {
                    info.stream_1025 = true;
                }
                if self.steps % 16 == 0 && self.abstract_states.len() < 64 {
                    self.abstract_states.push(self.model.abstract_state());
                }
            }
            Op::Evict { ts } => {
                info.kind = "evict";
                self.log.str("evict");
                let owners = self.check_presented("observing before an eviction")?;
                let victim = *ts;
                self.pool.retain(|t| *t != victim);
                if let Some((_, k)) = owners.iter().find(|(t, _)| *t == victim) {
                    self.model.streams.remove(k);
                    info.evicted_keys.push(k.clone());
                    info.evicted = 1;
                    self.log.str("evicted");
                }
                self.check_stream_count("an eviction")?;
                self.check_presented("an eviction")?;
            }
            Op::BulkEvict { cutoff } => {
                info.kind = "bulk_evict";
                self.log.str("bulk");
                let owners = self.check_presented("observing before a bulk eviction")?;
                let c = *cutoff;
                self.pool.retain(|t| t.0 >= c);
                for (t, k) in &owners {
                    if t.0 < c {
                        self.model.streams.remove(k);
                        info.evicted_keys.push(k.clone());
                        info.evicted += 1;
                    }
                }
                self.log.u64(info.evicted as u64);
                self.check_stream_count("a bulk eviction")?;
                self.check_presented("a bulk eviction")?;
            }
            Op::Return { idx } => {
                info.kind = "return";
                if *idx < self.held.len() {
                    let b = self.held.remove(*idx);
                    self.returned_caps.push(b.payload.capacity());
                    self.pool.return_buf(b);
                    self.log.str("return");
                }
                self.check_stream_count("return_buf")?;
            }
            Op::ReturnForeign { len, cap } => {
                info.kind = "return_foreign";
                let mut v = Vec::with_capacity((*cap).max(*len));
                v.resize(*len, 0xFB);
                self.returned_caps.push(v.capacity());
                self.pool.return_buf(IpDefragPayloadVec {
                    ip_number: IpNumber(253),
                    len_source: LenSource::Slice,
                    payload: v,
                });
                self.log.str("foreign");
                self.check_stream_count("return_buf")?;
            }
            Op::Restart => {
                info.kind = "restart";
                self.pool = Pool::new();
                self.model = Model::new();
                self.returned_caps.clear();
                self.log.str("restart");
            }
            Op::Checkpoint => {
                info.kind = "checkpoint";
                self.snapshot = Some(Snapshot {
                    pool: self.pool.clone(),
                    model: self.model.clone(),
                });
                self.log.str("checkpoint");
            }
            Op::Rollback => {
                info.kind = "rollback";
                if let Some(s) = self.snapshot.clone() {
                    info.rollback_streams_delta =
                        s.model.streams.len() as i64 - self.model.streams.len() as i64;
                    self.pool = s.pool;
                    self.model = s.model;
                    self.log.str("rollback");
                    self.check_stream_count("a rollback")?;
                    self.check_presented("a rollback")?;
                }
            }
        }
        Ok(info)
    }
}

/// If `k` differs from an active stream in exactly one key dimension, which?
fn sibling_dimension(m: &Model, k: &Key) -> Option<&'static str> {
    for o in m.streams.keys() {
        let same = [
            o.vlans == k.vlans,
            o.v6 == k.v6 && o.src == k.src && o.dst == k.dst,
            o.id == k.id,
            o.proto == k.proto,
            o.channel == k.channel,
        ];
        if same.iter().filter(|s| !**s).count() == 1 {
            return Some(if !same[0] {
                "vlan_ids"
            } else if !same[1] {
                "addresses_or_version"
            } else if !same[2] {
                "identification"
            } else if !same[3] {
                "protocol"
            } else {
                "channel"
            });
        }
    }
    None
}

fn render(r: &Result<Option<IpDefragPayloadVec>, IpDefragError>) -> String {
    match r {
        Ok(None) => "Ok(None)".to_string(),
        Ok(Some(p)) => format!("Ok(Some(payload of {} bytes, protocol {}))", p.payload.len(), p.ip_number.0),
        Err(e) => format!("Err({e:?})"),
    }
}

/// Executes a whole history; returns the digest of the event log.
pub fn run_history(ops: &[Op]) -> Result<u64, (usize, Fail)> {
    let mut x = Exec::new();
    for (i, op) in ops.iter().enumerate() {
        if let Err(f) = x.apply(op) {
            return Err((i, f));
        }
    }
    Ok(x.log.finish())
}
