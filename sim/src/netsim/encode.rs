//! Harness-owned frame encoder (the crate's PacketBuilder is deliberately not
//! used: a builder bug must not be able to raise a C11 alarm).

#[derive(Clone, Copy, Debug, PartialEq, Eq)]
pub enum Link {
    Eth,
    Sll,
    BareIp,
    /// no link header: the frame starts behind an (unseen) Ethernet header
    /// and is sliced with `from_ether_type`
    EtherPayload,
}

impl Link {
    pub fn entry(&self) -> &'static str {
        match self {
            Link::Eth => "eth",
            Link::Sll => "sll",
            Link::BareIp => "ip",
            Link::EtherPayload => "et",
        }
    }
}

/// Extension header placed in front of the IPv6 fragment header
/// (per-fragment part of the packet).
#[derive(Clone, Debug, PartialEq, Eq)]
pub struct PreExt {
    /// 0 hop-by-hop, 60 destination options, 43 routing,
    /// 44 an *atomic* fragment header (offset 0, M = 0) in front of the real one
    pub kind: u8,
    /// length in 8-byte units minus one
    pub units: u8,
}

#[derive(Clone, Debug, PartialEq, Eq)]
pub struct HostCfg {
    pub link: Link,
    /// (tpid, vlan id) outermost first, at most 3
    pub vlans: Vec<(u16, u16)>,
    pub v6: bool,
    pub src: [u8; 16],
    pub dst: [u8; 16],
    pub channel: u32,
    /// MACsec SecTag (unmodified payload, short length 0) inserted in front
    /// of the VLAN tag with this index (== vlans.len(): behind all of them);
    /// the bool selects a SecTag with SCI. VLAN tags + MACsec <= 3.
    pub macsec: Option<(usize, bool)>,
    /// IPv4: number of 4-byte option words (0..=10)
    pub v4_opt_words: u8,
    /// IPv6: extension headers in front of the fragment header
    pub v6_pre: Vec<PreExt>,
    /// IPv6: announce payload length 0 ("up to the end of the enclosing
    /// data"); such frames carry no trailer
    pub v6_zero_len: bool,
}

#[derive(Clone, Debug, PartialEq, Eq)]
pub struct Frag {
    pub id: u32,
    pub proto: u8,
    /// offset in 8-byte units
    pub off8: u16,
    pub more: bool,
    pub payload: Vec<u8>,
}

pub const ETHER_IPV4: u16 = 0x0800;
pub const ETHER_IPV6: u16 = 0x86dd;
pub const ETHER_ARP: u16 = 0x0806;

fn ones_complement_sum(data: &[u8]) -> u16 {
    let mut sum: u32 = 0;
    let mut i = 0;
    while i + 1 < data.len() {
        sum += u32::from(u16::from_be_bytes([data[i], data[i + 1]]));
        i += 2;
    }
    if i < data.len() {
        sum += u32::from(data[i]) << 8;
    }
    while sum >> 16 != 0 {
        sum = (sum & 0xffff) + (sum >> 16);
    }
    !(sum as u16)
}

pub const ETHER_MACSEC: u16 = 0x88e5;

/// Link + VLAN (+ MACsec) part for a given inner ether type.
pub fn encode_link(h: &HostCfg, inner: u16, fill: u8) -> Vec<u8> {
    let mut out = Vec::new();
    // tags in wire order: (ether type announcing the tag, tag kind)
    #[derive(Clone, Copy)]
    enum Tag {
        Vlan(u16),
        Macsec(bool),
    }
    let mut tags: Vec<(u16, Tag)> = Vec::new();
    if h.link != Link::BareIp {
        for (i, (tpid, vid)) in h.vlans.iter().enumerate() {
            if let Some((at, sci)) = h.macsec {
                if at == i {
                    tags.push((ETHER_MACSEC, Tag::Macsec(sci)));
                }
            }
            tags.push((*tpid, Tag::Vlan(*vid)));
        }
        if let Some((at, sci)) = h.macsec {
            if at >= h.vlans.len() {
                tags.push((ETHER_MACSEC, Tag::Macsec(sci)));
            }
        }
    }
    let first_type = tags.first().map(|t| t.0).unwrap_or(inner);
    match h.link {
        Link::Eth => {
            out.extend_from_slice(&[fill ^ 0x11; 6]);
            out.extend_from_slice(&[fill ^ 0x22; 6]);
            out.extend_from_slice(&first_type.to_be_bytes());
        }
        Link::Sll => {
            out.extend_from_slice(&[0, (fill & 3)]); // packet type 0..3
            out.extend_from_slice(&[0, 1]); // ARPHRD_ETHER
            out.extend_from_slice(&[0, 6]);
            out.extend_from_slice(&[fill ^ 0x33; 8]);
            out.extend_from_slice(&first_type.to_be_bytes());
        }
        Link::BareIp | Link::EtherPayload => {}
    }
    for (i, (_, tag)) in tags.iter().enumerate() {
        let next = tags.get(i + 1).map(|t| t.0).unwrap_or(inner);
        match tag {
            Tag::Vlan(vid) => {
                let tci = ((u16::from(fill) & 7) << 13) | (vid & 0x0fff);
                out.extend_from_slice(&tci.to_be_bytes());
                out.extend_from_slice(&next.to_be_bytes());
            }
            Tag::Macsec(sci) => {
                // TCI: V=0, ES=0, SC=sci, SCB=0, E=0, C=0 (unmodified), AN
                out.push(if *sci { 0x20 } else { 0x00 } | (fill & 3));
                out.push(0); // short length 0: unknown
                out.extend_from_slice(&[0, 0, 0, fill]); // packet number
                if *sci {
                    out.extend_from_slice(&[fill ^ 0x44; 8]);
                }
                out.extend_from_slice(&next.to_be_bytes());
            }
        }
    }
    out
}

/// The ether type that announces the first tag (or the IP header) - the
/// argument of `from_ether_type` for `Link::EtherPayload` hosts.
pub fn first_ether_type(h: &HostCfg, inner: u16) -> u16 {
    match (h.macsec, h.vlans.first()) {
        (Some((0, _)), _) => ETHER_MACSEC,
        (_, Some(v)) => v.0,
        (Some(_), None) => ETHER_MACSEC,
        (None, None) => inner,
    }
}

/// Offset of the IP header inside the frame.
pub fn ip_offset(h: &HostCfg) -> usize {
    let macsec = match h.macsec {
        Some((_, true)) => 16,
        Some((_, false)) => 8,
        None => 0,
    };
    match h.link {
        Link::Eth => 14 + 4 * h.vlans.len() + macsec,
        Link::Sll => 16 + 4 * h.vlans.len() + macsec,
        Link::EtherPayload => 4 * h.vlans.len() + macsec,
        Link::BareIp => 0,
    }
}

/// Length of the IP header chain in front of the fragment payload.
pub fn ip_header_len(h: &HostCfg) -> usize {
    if h.v6 {
        40 + h
            .v6_pre
            .iter()
            .map(|e| if e.kind == 44 { 8 } else { (usize::from(e.units) + 1) * 8 })
            .sum::<usize>()
            + 8
    } else {
        20 + 4 * usize::from(h.v4_opt_words)
    }
}

/// Encodes one fragment as a complete frame; `pad` trailer bytes are
/// appended behind the IP packet. Returns the frame and the position of the
/// fragment payload inside it.
pub fn encode_fragment(h: &HostCfg, f: &Frag, pad: usize, ttl: u8) -> (Vec<u8>, usize) {
    let mut out = encode_link(h, if h.v6 { ETHER_IPV6 } else { ETHER_IPV4 }, f.id as u8);
    let ip_start = out.len();
    if h.v6 {
        let ext_len: usize = ip_header_len(h) - 40;
        let plen = ext_len + f.payload.len();
        assert!(plen <= 65_535, "harness: IPv6 payload length {plen} does not fit the length field");
        out.extend_from_slice(&[0x60 | (ttl >> 4), (ttl << 4) | 0x03, 0x12, 0x34]);
        out.extend_from_slice(&(if h.v6_zero_len { 0 } else { plen as u16 }).to_be_bytes());
        let first_next = h.v6_pre.first().map(|e| e.kind).unwrap_or(44);
        out.push(first_next);
        out.push(ttl);
        out.extend_from_slice(&h.src);
        out.extend_from_slice(&h.dst);
        for (i, e) in h.v6_pre.iter().enumerate() {
            let next = h.v6_pre.get(i + 1).map(|e| e.kind).unwrap_or(44);
            if e.kind == 44 {
                // atomic fragment header with its own identification
                out.push(next);
                out.push(0);
                out.extend_from_slice(&[0, 0]);
                out.extend_from_slice(&(f.id ^ 0x5a5a_5a5a).to_be_bytes());
                continue;
            }
            out.push(next);
            out.push(e.units);
            let body = (usize::from(e.units) + 1) * 8 - 2;
            // PadN options / routing data: content is irrelevant to the slicer
            for k in 0..body {
                out.push(if k == 0 { 1 } else if k == 1 { (body - 2) as u8 } else { 0 });
            }
        }
        // fragment header; the reserved byte and the two reserved bits are
        // "ignored on reception" (RFC 8200) and therefore set arbitrarily
        let noise = (f.id ^ u32::from(f.off8).wrapping_mul(0x9e37)) as u16;
        out.push(f.proto);
        out.push(if noise & 0x10 != 0 { (noise >> 8) as u8 } else { 0 });
        let off = (f.off8 << 3) | u16::from(f.more) | if noise & 0x20 != 0 { noise & 0b110 } else { 0 };
        out.extend_from_slice(&off.to_be_bytes());
        out.extend_from_slice(&f.id.to_be_bytes());
    } else {
        let hl = 20 + 4 * usize::from(h.v4_opt_words);
        let total = hl + f.payload.len();
        assert!(total <= 65_535, "harness: IPv4 total length {total} does not fit the length field");
        out.push(0x40 | (hl / 4) as u8);
        out.push(ttl & 0xfc);
        out.extend_from_slice(&(total as u16).to_be_bytes());
        out.extend_from_slice(&(f.id as u16).to_be_bytes());
        // the reserved flag bit is set arbitrarily
        let noise = (f.id ^ u32::from(f.off8).wrapping_mul(0x9e37)) as u16;
        let fl = (u16::from(f.more) << 13) | (f.off8 & 0x1fff) | if noise & 0x30 == 0x30 { 0x8000 } else { 0 };
        out.extend_from_slice(&fl.to_be_bytes());
        out.push(ttl);
        out.push(f.proto);
        out.extend_from_slice(&[0, 0]);
        out.extend_from_slice(&h.src[..4]);
        out.extend_from_slice(&h.dst[..4]);
        for k in 0..(4 * usize::from(h.v4_opt_words)) {
            out.push(if k % 4 == 3 { 0 } else { 1 }); // NOPs / EOL
        }
        let c = ones_complement_sum(&out[ip_start..ip_start + hl]);
        out[ip_start + 10..ip_start + 12].copy_from_slice(&c.to_be_bytes());
    }
    let payload_at = out.len();
    out.extend_from_slice(&f.payload);
    for k in 0..pad {
        out.push(0xF0 ^ (k as u8));
    }
    (out, payload_at)
}

/// Background traffic that the pool has to pass through untouched.
#[derive(Clone, Copy, Debug, PartialEq, Eq)]
pub enum Background {
    /// unfragmented IP packet with a UDP header
    Unfragmented,
    /// IPv6 packet with an atomic fragment header (offset 0, M = 0)
    AtomicV6,
    Arp,
    UnknownEtherType,
}

pub fn encode_background(h: &HostCfg, kind: Background, body: &[u8], id: u32) -> Vec<u8> {
    match kind {
        Background::Arp if h.link != Link::BareIp => {
            let mut out = encode_link(h, ETHER_ARP, id as u8);
            out.extend_from_slice(&[0, 1, 8, 0, 6, 4, 0, 1]);
            out.extend_from_slice(&[id as u8; 6]);
            out.extend_from_slice(&h.src[..4]);
            out.extend_from_slice(&[0; 6]);
            out.extend_from_slice(&h.dst[..4]);
            out
        }
        Background::UnknownEtherType if h.link != Link::BareIp => {
            let mut out = encode_link(h, 0x88b5, id as u8);
            out.extend_from_slice(body);
            out
        }
        Background::AtomicV6 => {
            let mut hh = h.clone();
            hh.v6 = true;
            let mut udp = vec![0x12, 0x34, 0x00, 0x35];
            udp.extend_from_slice(&((8 + body.len()) as u16).to_be_bytes());
            udp.extend_from_slice(&[0, 0]);
            udp.extend_from_slice(body);
            let f = Frag {
                id,
                proto: 17,
                off8: 0,
                more: false,
                payload: udp,
            };
            encode_fragment(&hh, &f, 0, 64).0
        }
        _ => {
            // unfragmented datagram of the host's IP version carrying UDP
            let mut udp = vec![0x12, 0x34, 0x00, 0x35];
            udp.extend_from_slice(&((8 + body.len()) as u16).to_be_bytes());
            udp.extend_from_slice(&[0, 0]);
            udp.extend_from_slice(body);
            if h.v6 {
                let mut out = encode_link(h, ETHER_IPV6, id as u8);
                out.extend_from_slice(&[0x60, 0, 0, 0]);
                out.extend_from_slice(&(udp.len() as u16).to_be_bytes());
                out.push(17);
                out.push(64);
                out.extend_from_slice(&h.src);
                out.extend_from_slice(&h.dst);
                out.extend_from_slice(&udp);
                out
            } else {
                let f = Frag {
                    id,
                    proto: 17,
                    off8: 0,
                    more: false,
                    payload: udp,
                };
                encode_fragment(h, &f, 0, 64).0
            }
        }
    }
}
