//! Uniform dispatch over every reader-based decoder of the crate and its
//! slice-based twin, with results normalised so they can be compared.

use super::values::Value;
use etherparse::err::{Layer, LenError};
use etherparse::io::LimitedReader;
use etherparse::*;
use std::io::{Read, Seek};

macro_rules! kinds {
    ($name:ident { $($v:ident => $s:expr),* $(,)? }) => {
        #[derive(Clone, Copy, Debug, PartialEq, Eq, Hash, PartialOrd, Ord)]
        pub enum $name { $($v),* }
        impl $name {
            pub const ALL: &'static [$name] = &[$($name::$v),*];
            pub fn name(self) -> &'static str { match self { $($name::$v => $s),* } }
            pub fn parse(s: &str) -> Result<$name, String> {
                match s { $($s => Ok($name::$v),)* _ => Err(format!("unknown kind '{s}'")) }
            }
        }
    };
}

kinds!(RKind {
    Eth => "ethernet2.read",
    Sll => "linux_sll.read",
    Macsec => "macsec.read",
    Vlan => "single_vlan.read",
    Arp => "arp.read",
    Auth => "ip_auth.read",
    AuthLimited => "ip_auth.read_limited",
    V4 => "ipv4.read",
    V4NoVersion => "ipv4.read_without_version",
    V6 => "ipv6.read",
    V6NoVersion => "ipv6.read_without_version",
    V6SkipExt => "ipv6.skip_header_extension",
    V6SkipAllExts => "ipv6.skip_all_header_extensions",
    V4Exts => "ipv4_exts.read",
    V4ExtsLimited => "ipv4_exts.read_limited",
    V6Exts => "ipv6_exts.read",
    V6ExtsLimited => "ipv6_exts.read_limited",
    RawExt => "ipv6_raw_ext.read",
    RawExtLimited => "ipv6_raw_ext.read_limited",
    Frag => "ipv6_fragment.read",
    FragLimited => "ipv6_fragment.read_limited",
    Ip => "ip_headers.read",
    Tcp => "tcp.read",
    Udp => "udp.read",
    Icmp4 => "icmpv4.read",
    Icmp6 => "icmpv6.read",
});

impl RKind {
    pub fn is_limited(self) -> bool {
        matches!(
            self,
            RKind::AuthLimited
                | RKind::V4ExtsLimited
                | RKind::V6ExtsLimited
                | RKind::RawExtLimited
                | RKind::FragLimited
        )
    }
    /// the op takes the first stream byte as an argument instead of reading it
    pub fn first_byte_is_param(self) -> bool {
        matches!(self, RKind::V4NoVersion | RKind::V6NoVersion)
    }
    /// the op takes an ip number (start / next header) as an argument
    pub fn takes_ip_number(self) -> bool {
        matches!(
            self,
            RKind::V6SkipExt
                | RKind::V6SkipAllExts
                | RKind::V4Exts
                | RKind::V4ExtsLimited
                | RKind::V6Exts
                | RKind::V6ExtsLimited
        )
    }
}

#[derive(Clone, Debug, PartialEq, Eq)]
pub struct ROp {
    pub kind: RKind,
    /// ip number argument (see `takes_ip_number`)
    pub ip_number: u8,
    /// byte budget of the LimitedReader (limited kinds only)
    pub limit: usize,
}

#[derive(Debug)]
pub enum ROut {
    Ok(Value),
    Io(std::io::Error),
    Len(LenError),
    Content(String),
}

#[derive(Debug, Clone, PartialEq)]
pub enum SOut {
    /// value and number of bytes the header occupies in the slice
    Ok(Value, usize),
    Len(LenError),
    Content(String),
}

macro_rules! map3 {
    ($res:expr, $ety:path, $ok:expr) => {{
        use $ety as E;
        match $res {
            Ok(v) => ROut::Ok($ok(v)),
            Err(E::Io(e)) => ROut::Io(e),
            Err(E::Len(e)) => ROut::Len(e),
            Err(E::Content(e)) => ROut::Content(format!("{e:?}")),
        }
    }};
}

macro_rules! map2 {
    ($res:expr, $ety:path, $ok:expr) => {{
        use $ety as E;
        match $res {
            Ok(v) => ROut::Ok($ok(v)),
            Err(E::Io(e)) => ROut::Io(e),
            Err(E::Content(e)) => ROut::Content(format!("{e:?}")),
        }
    }};
}

macro_rules! map_lim {
    ($res:expr, $ok:expr) => {{
        use etherparse::err::io::LimitedReadError as E;
        match $res {
            Ok(v) => ROut::Ok($ok(v)),
            Err(E::Io(e)) => ROut::Io(e),
            Err(E::Len(e)) => ROut::Len(e),
        }
    }};
}

macro_rules! map_io {
    ($res:expr, $ok:expr) => {{
        match $res {
            Ok(v) => ROut::Ok($ok(v)),
            Err(e) => ROut::Io(e),
        }
    }};
}

/// Runs the reader-based decoder. `first` is the byte handed over as an
/// argument for the `*_without_version` kinds.
pub fn run_reader<R: Read + Seek>(op: &ROp, first: u8, r: &mut R) -> ROut {
    let ipn = IpNumber(op.ip_number);
    let lim = |r| LimitedReader::new(r, op.limit, LenSource::Slice, 0, Layer::Ipv4Header);
    match op.kind {
        RKind::Eth => map_io!(Ethernet2Header::read(r), Value::Eth),
        RKind::Sll => {
            use etherparse::err::ReadError as E;
            match LinuxSllHeader::read(r) {
                Ok(v) => ROut::Ok(Value::Sll(v)),
                Err(E::Io(e)) => ROut::Io(e),
                Err(E::Len(e)) => ROut::Len(e),
                Err(E::LinuxSll(e)) => ROut::Content(format!("{e:?}")),
                Err(other) => ROut::Content(format!("unexpected:{other:?}")),
            }
        }
        RKind::Macsec => map2!(
            MacsecHeader::read(r),
            etherparse::err::macsec::HeaderReadError,
            Value::Macsec
        ),
        RKind::Vlan => map_io!(SingleVlanHeader::read(r), Value::Vlan),
        RKind::Arp => map_io!(ArpPacket::read(r), |v| Value::Arp(Box::new(v))),
        RKind::Auth => map2!(
            IpAuthHeader::read(r),
            etherparse::err::ip_auth::HeaderReadError,
            |v| Value::Auth(Box::new(v))
        ),
        RKind::AuthLimited => map3!(
            IpAuthHeader::read_limited(&mut lim(r)),
            etherparse::err::ip_auth::HeaderLimitedReadError,
            |v| Value::Auth(Box::new(v))
        ),
        RKind::V4 => map2!(
            Ipv4Header::read(r),
            etherparse::err::ipv4::HeaderReadError,
            |v| Value::V4(Box::new(v))
        ),
        RKind::V4NoVersion => map2!(
            Ipv4Header::read_without_version(r, first),
            etherparse::err::ipv4::HeaderReadError,
            |v| Value::V4(Box::new(v))
        ),
        RKind::V6 => map2!(
            Ipv6Header::read(r),
            etherparse::err::ipv6::HeaderReadError,
            |v| Value::V6(Box::new(v))
        ),
        RKind::V6NoVersion => map_io!(Ipv6Header::read_without_version(r, first & 0xf), |v| {
            Value::V6(Box::new(v))
        }),
        RKind::V6SkipExt => map_io!(Ipv6Header::skip_header_extension(r, ipn), Value::Skip),
        RKind::V6SkipAllExts => {
            map_io!(Ipv6Header::skip_all_header_extensions(r, ipn), Value::Skip)
        }
        RKind::V4Exts => map2!(
            Ipv4Extensions::read(r, ipn),
            etherparse::err::ip_auth::HeaderReadError,
            |(e, n)| Value::V4Exts(Box::new(e), n)
        ),
        RKind::V4ExtsLimited => map3!(
            Ipv4Extensions::read_limited(&mut lim(r), ipn),
            etherparse::err::ip_auth::HeaderLimitedReadError,
            |(e, n)| Value::V4Exts(Box::new(e), n)
        ),
        RKind::V6Exts => map2!(
            Ipv6Extensions::read(r, ipn),
            etherparse::err::ipv6_exts::HeaderReadError,
            |(e, n)| Value::V6Exts(Box::new(e), n)
        ),
        RKind::V6ExtsLimited => map3!(
            Ipv6Extensions::read_limited(&mut lim(r), ipn),
            etherparse::err::ipv6_exts::HeaderLimitedReadError,
            |(e, n)| Value::V6Exts(Box::new(e), n)
        ),
        RKind::RawExt => map_io!(Ipv6RawExtHeader::read(r), |v| Value::RawExt(Box::new(v))),
        RKind::RawExtLimited => map_lim!(Ipv6RawExtHeader::read_limited(&mut lim(r)), |v| {
            Value::RawExt(Box::new(v))
        }),
        RKind::Frag => map_io!(Ipv6FragmentHeader::read(r), Value::Frag),
        RKind::FragLimited => {
            map_lim!(Ipv6FragmentHeader::read_limited(&mut lim(r)), Value::Frag)
        }
        RKind::Ip => map3!(
            IpHeaders::read(r),
            etherparse::err::ip::HeaderReadError,
            |(h, n)| Value::IpRead(Box::new(h), n)
        ),
        RKind::Tcp => map2!(
            TcpHeader::read(r),
            etherparse::err::tcp::HeaderReadError,
            |v| Value::Tcp(Box::new(v))
        ),
        RKind::Udp => map_io!(UdpHeader::read(r), Value::Udp),
        RKind::Icmp4 => map_io!(Icmpv4Header::read(r), Value::Icmp4),
        RKind::Icmp6 => map_io!(Icmpv6Header::read(r), Value::Icmp6),
    }
}

macro_rules! smap2 {
    ($res:expr, $ety:path, $ok:expr) => {{
        use $ety as E;
        match $res {
            Ok(v) => {
                let (val, used) = $ok(v);
                SOut::Ok(val, used)
            }
            Err(E::Len(e)) => SOut::Len(e),
            Err(E::Content(e)) => SOut::Content(format!("{e:?}")),
        }
    }};
}

macro_rules! smap_len {
    ($res:expr, $ok:expr) => {{
        match $res {
            Ok(v) => {
                let (val, used) = $ok(v);
                SOut::Ok(val, used)
            }
            Err(e) => SOut::Len(e),
        }
    }};
}

/// Runs the slice-based twin on `s` (for the `*_without_version` kinds `s`
/// starts with the byte that the reader variant takes as an argument; the
/// reported length then still counts from the start of `s`).
pub fn run_slice(op: &ROp, s: &[u8]) -> SOut {
    let ipn = IpNumber(op.ip_number);
    let n = s.len();
    match op.kind {
        RKind::Eth => smap_len!(Ethernet2Header::from_slice(s), |(h, rest): (_, &[u8])| (
            Value::Eth(h),
            n - rest.len()
        )),
        RKind::Sll => smap2!(
            LinuxSllHeader::from_slice(s),
            etherparse::err::linux_sll::HeaderSliceError,
            |(h, rest): (_, &[u8])| (Value::Sll(h), n - rest.len())
        ),
        RKind::Macsec => smap2!(
            MacsecHeader::from_slice(s),
            etherparse::err::macsec::HeaderSliceError,
            |h: MacsecHeader| {
                let l = h.header_len();
                (Value::Macsec(h), l)
            }
        ),
        RKind::Vlan => smap_len!(SingleVlanHeader::from_slice(s), |(h, rest): (_, &[u8])| (
            Value::Vlan(h),
            n - rest.len()
        )),
        RKind::Arp => smap_len!(ArpPacket::from_slice(s), |h: ArpPacket| {
            let l = h.packet_len();
            (Value::Arp(Box::new(h)), l)
        }),
        RKind::Auth | RKind::AuthLimited => smap2!(
            IpAuthHeader::from_slice(s),
            etherparse::err::ip_auth::HeaderSliceError,
            |(h, rest): (_, &[u8])| (Value::Auth(Box::new(h)), n - rest.len())
        ),
        RKind::V4 | RKind::V4NoVersion => smap2!(
            Ipv4Header::from_slice(s),
            etherparse::err::ipv4::HeaderSliceError,
            |(h, rest): (_, &[u8])| (Value::V4(Box::new(h)), n - rest.len())
        ),
        RKind::V6 | RKind::V6NoVersion => smap2!(
            Ipv6Header::from_slice(s),
            etherparse::err::ipv6::HeaderSliceError,
            |(h, rest): (_, &[u8])| (Value::V6(Box::new(h)), n - rest.len())
        ),
        RKind::V6SkipExt => smap_len!(
            Ipv6Header::skip_header_extension_in_slice(s, ipn),
            |(next, rest): (_, &[u8])| (Value::Skip(next), n - rest.len())
        ),
        RKind::V6SkipAllExts => smap_len!(
            Ipv6Header::skip_all_header_extensions_in_slice(s, ipn),
            |(next, rest): (_, &[u8])| (Value::Skip(next), n - rest.len())
        ),
        RKind::V4Exts | RKind::V4ExtsLimited => smap2!(
            Ipv4Extensions::from_slice(ipn, s),
            etherparse::err::ip_auth::HeaderSliceError,
            |(e, next, rest): (_, _, &[u8])| (Value::V4Exts(Box::new(e), next), n - rest.len())
        ),
        RKind::V6Exts | RKind::V6ExtsLimited => smap2!(
            Ipv6Extensions::from_slice(ipn, s),
            etherparse::err::ipv6_exts::HeaderSliceError,
            |(e, next, rest): (_, _, &[u8])| (Value::V6Exts(Box::new(e), next), n - rest.len())
        ),
        RKind::RawExt | RKind::RawExtLimited => smap_len!(
            Ipv6RawExtHeader::from_slice(s),
            |(h, rest): (_, &[u8])| (Value::RawExt(Box::new(h)), n - rest.len())
        ),
        RKind::Frag | RKind::FragLimited => smap_len!(
            Ipv6FragmentHeader::from_slice(s),
            |(h, rest): (_, &[u8])| (Value::Frag(h), n - rest.len())
        ),
        RKind::Ip => smap2!(
            IpHeaders::from_slice(s),
            etherparse::err::ip::HeadersSliceError,
            |(h, p): (IpHeaders, IpPayloadSlice)| {
                let used = p.payload.as_ptr() as usize - s.as_ptr() as usize;
                (Value::IpRead(Box::new(h), p.ip_number), used)
            }
        ),
        RKind::Tcp => smap2!(
            TcpHeader::from_slice(s),
            etherparse::err::tcp::HeaderSliceError,
            |(h, rest): (_, &[u8])| (Value::Tcp(Box::new(h)), n - rest.len())
        ),
        RKind::Udp => smap_len!(UdpHeader::from_slice(s), |(h, rest): (_, &[u8])| (
            Value::Udp(h),
            n - rest.len()
        )),
        RKind::Icmp4 => smap_len!(Icmpv4Header::from_slice(s), |(h, rest): (_, &[u8])| (
            Value::Icmp4(h),
            n - rest.len()
        )),
        RKind::Icmp6 => smap_len!(Icmpv6Header::from_slice(s), |(h, rest): (_, &[u8])| (
            Value::Icmp6(h),
            n - rest.len()
        )),
    }
}
