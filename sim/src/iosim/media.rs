//! Simulated byte media: the only `Read`/`Seek`/`Write` implementations and
//! output slices the library sees in `iosim`. Every answer they give is a
//! function of the fault plan and the call index, never of a clock or of a
//! global PRNG.

use crate::prng::{mix, Rng};
use std::io::{self, Read, Seek, SeekFrom, Write};

/// Payload of every injected `io::Error`, so "returns *that* error" is checkable.
#[derive(Debug, Clone, Copy, PartialEq, Eq)]
pub struct Token(pub u64);

impl std::fmt::Display for Token {
    fn fmt(&self, f: &mut std::fmt::Formatter<'_>) -> std::fmt::Result {
        write!(f, "injected fault token {}", self.0)
    }
}
impl std::error::Error for Token {}

pub const ERR_KINDS: [io::ErrorKind; 5] = [
    io::ErrorKind::Other,
    io::ErrorKind::BrokenPipe,
    io::ErrorKind::TimedOut,
    io::ErrorKind::WouldBlock,
    io::ErrorKind::ConnectionReset,
];

pub fn injected_error(token: u64) -> io::Error {
    io::Error::new(ERR_KINDS[(token % 5) as usize], Token(token))
}

pub fn token_of(e: &io::Error) -> Option<u64> {
    e.get_ref().and_then(|i| i.downcast_ref::<Token>()).map(|t| t.0)
}

/// How many bytes a medium transfers per call.
#[derive(Clone, Copy, Debug, PartialEq, Eq)]
pub enum Chunking {
    /// everything that is asked for
    Whole,
    /// exactly one byte per call
    One,
    /// 1..=asked, drawn per call from (seed, call index)
    Random(u64),
    /// 1..=asked with interleaved `Interrupted` results (at most 3 in a row)
    RandomEintr(u64),
    /// at most this many bytes per call (a device with a fixed block size)
    Fixed(usize),
}

impl Chunking {
    pub fn name(&self) -> String {
        match self {
            Chunking::Whole => "whole".into(),
            Chunking::One => "one".into(),
            Chunking::Random(s) => format!("random:{s}"),
            Chunking::RandomEintr(s) => format!("eintr:{s}"),
            Chunking::Fixed(n) => format!("fixed:{n}"),
        }
    }
    pub fn parse(s: &str) -> Result<Chunking, String> {
        if s == "whole" {
            return Ok(Chunking::Whole);
        }
        if s == "one" {
            return Ok(Chunking::One);
        }
        if let Some(r) = s.strip_prefix("random:") {
            return r.parse().map(Chunking::Random).map_err(|e| format!("{e}"));
        }
        if let Some(r) = s.strip_prefix("eintr:") {
            return r.parse().map(Chunking::RandomEintr).map_err(|e| format!("{e}"));
        }
        if let Some(r) = s.strip_prefix("fixed:") {
            return r
                .parse::<usize>()
                .map(|n| Chunking::Fixed(n.max(1)))
                .map_err(|e| format!("{e}"));
        }
        Err(format!("bad chunking '{s}'"))
    }
    /// (eintr?, bytes) for a call that asks for `want` > 0 bytes.
    fn decide(&self, call: usize, eintr_run: u32, want: usize) -> (bool, usize) {
        match *self {
            Chunking::Whole => (false, want),
            Chunking::One => (false, 1),
            Chunking::Fixed(n) => (false, want.min(n.max(1))),
            Chunking::Random(seed) => {
                let mut r = Rng::new(mix(&[seed, call as u64]));
                (false, r.usize_range(1, want))
            }
            Chunking::RandomEintr(seed) => {
                let mut r = Rng::new(mix(&[seed, call as u64]));
                let n = r.usize_range(1, want);
                (eintr_run < 3 && r.chance(1, 3), n)
            }
        }
    }
}

#[derive(Clone, Copy, Debug, PartialEq, Eq)]
pub enum HardFault {
    /// tagged `io::Error` (one shot: the call fails and transfers nothing)
    Error,
    /// `Ok(0)` from this point on: end of stream / full medium
    Zero,
}

impl HardFault {
    pub fn name(&self) -> &'static str {
        match self {
            HardFault::Error => "error",
            HardFault::Zero => "zero",
        }
    }
    pub fn parse(s: &str) -> Result<HardFault, String> {
        match s {
            "error" => Ok(HardFault::Error),
            "zero" => Ok(HardFault::Zero),
            _ => Err(format!("bad fault '{s}'")),
        }
    }
}

#[derive(Clone, Copy, Debug, PartialEq, Eq)]
pub enum CallKind {
    Read,
    Seek,
}

#[derive(Clone, Debug)]
pub struct ReaderPlan {
    pub chunking: Chunking,
    /// hard fault at the call with this index (reads and seeks are both calls)
    pub fault: Option<(usize, HardFault)>,
    pub token: u64,
    /// look at the destination buffer before filling it (Miri: makes handing
    /// uninitialised memory to a safe `Read` visible)
    pub inspect: bool,
    /// (call index, extra): this call fills the buffer and then claims to have
    /// read `extra` bytes more than fit - a safe but contract-violating
    /// `Read` implementation, which must not lead to undefined behaviour
    pub over_report: Option<(usize, usize)>,
}

impl ReaderPlan {
    pub fn clean(chunking: Chunking) -> ReaderPlan {
        ReaderPlan {
            chunking,
            fault: None,
            token: 0,
            inspect: false,
            over_report: None,
        }
    }
}

/// `Read + Seek` over a stored byte string.
pub struct SimReader<'a> {
    data: &'a [u8],
    pos: u64,
    plan: ReaderPlan,
    eintr_run: u32,
    zero_from_now: bool,
    /// one entry per call: kind and the stream position before the call
    pub calls: Vec<(CallKind, u64)>,
    /// highest stream position reached by delivered bytes
    pub high_water: u64,
    /// bytes handed out over all calls
    pub delivered: u64,
    /// calls made after the hard fault fired
    pub calls_after_fault: usize,
    pub fault_fired: bool,
    pub eintrs: usize,
    pub inspected_sum: u64,
}

impl<'a> SimReader<'a> {
    pub fn new(data: &'a [u8], plan: ReaderPlan) -> SimReader<'a> {
        SimReader {
            data,
            pos: 0,
            plan,
            eintr_run: 0,
            zero_from_now: false,
            calls: Vec::new(),
            high_water: 0,
            delivered: 0,
            calls_after_fault: 0,
            fault_fired: false,
            eintrs: 0,
            inspected_sum: 0,
        }
    }
    pub fn position(&self) -> u64 {
        self.pos
    }
    fn enter(&mut self, kind: CallKind) -> Option<HardFault> {
        let idx = self.calls.len();
        self.calls.push((kind, self.pos));
        if self.fault_fired {
            self.calls_after_fault += 1;
        }
        match self.plan.fault {
            Some((at, f)) if at == idx => {
                self.fault_fired = true;
                Some(f)
            }
            _ => None,
        }
    }
}

impl Read for SimReader<'_> {
    fn read(&mut self, buf: &mut [u8]) -> io::Result<usize> {
        let call = self.calls.len();
        let fault = self.enter(CallKind::Read);
        if self.plan.inspect {
            // a safe Read implementation is allowed to look at `buf`
            let mut s = 0u64;
            for b in buf.iter() {
                s = s.wrapping_add(u64::from(*b));
            }
            self.inspected_sum = self.inspected_sum.wrapping_add(s);
        }
        match fault {
            Some(HardFault::Error) => return Err(injected_error(self.plan.token)),
            Some(HardFault::Zero) => self.zero_from_now = true,
            None => {}
        }
        if self.zero_from_now || buf.is_empty() {
            return Ok(0);
        }
        let avail = if self.pos >= self.data.len() as u64 {
            0
        } else {
            self.data.len() - self.pos as usize
        };
        if avail == 0 {
            return Ok(0);
        }
        if let Some((at, extra)) = self.plan.over_report {
            if at == call {
                let n = buf.len().min(avail);
                let p = self.pos as usize;
                buf[..n].copy_from_slice(&self.data[p..p + n]);
                self.pos += n as u64;
                self.delivered += n as u64;
                self.fault_fired = true;
                return Ok(buf.len() + extra);
            }
        }
        let want = buf.len().min(avail);
        let (eintr, n) = self.plan.chunking.decide(call, self.eintr_run, want);
        if eintr {
            self.eintr_run += 1;
            self.eintrs += 1;
            return Err(io::Error::new(io::ErrorKind::Interrupted, "simulated EINTR"));
        }
        self.eintr_run = 0;
        let p = self.pos as usize;
        buf[..n].copy_from_slice(&self.data[p..p + n]);
        self.pos += n as u64;
        self.delivered += n as u64;
        if self.pos > self.high_water {
            self.high_water = self.pos;
        }
        Ok(n)
    }
}

impl Seek for SimReader<'_> {
    fn seek(&mut self, to: SeekFrom) -> io::Result<u64> {
        let fault = self.enter(CallKind::Seek);
        match fault {
            // nothing retries a failed seek, so for a seek EINTR is a hard
            // error like any other: every third token uses that kind
            Some(HardFault::Error) if self.plan.token % 3 == 0 => {
                return Err(io::Error::new(
                    io::ErrorKind::Interrupted,
                    Token(self.plan.token),
                ))
            }
            Some(HardFault::Error) => return Err(injected_error(self.plan.token)),
            Some(HardFault::Zero) => self.zero_from_now = true,
            None => {}
        }
        // same semantics as std::io::Cursor: may move past the end
        let (base, off) = match to {
            SeekFrom::Start(n) => {
                self.pos = n;
                return Ok(n);
            }
            SeekFrom::End(n) => (self.data.len() as u64, n),
            SeekFrom::Current(n) => (self.pos, n),
        };
        match base.checked_add_signed(off) {
            Some(n) => {
                self.pos = n;
                Ok(n)
            }
            None => Err(io::Error::new(
                io::ErrorKind::InvalidInput,
                "invalid seek to a negative or overflowing position",
            )),
        }
    }
}

#[derive(Clone, Debug)]
pub struct WriterPlan {
    pub chunking: Chunking,
    /// hard fault when exactly this many bytes have been accepted
    pub fault: Option<(usize, HardFault)>,
    pub token: u64,
}

impl WriterPlan {
    pub fn clean(chunking: Chunking) -> WriterPlan {
        WriterPlan {
            chunking,
            fault: None,
            token: 0,
        }
    }
}

pub struct SimWriter {
    plan: WriterPlan,
    pub accepted: Vec<u8>,
    pub calls: usize,
    eintr_run: u32,
    pub fault_fired: bool,
    full: bool,
    pub calls_after_fault: usize,
    pub eintrs: usize,
    pub flushes: usize,
}

impl SimWriter {
    pub fn new(plan: WriterPlan) -> SimWriter {
        SimWriter {
            plan,
            accepted: Vec::new(),
            calls: 0,
            eintr_run: 0,
            fault_fired: false,
            full: false,
            calls_after_fault: 0,
            eintrs: 0,
            flushes: 0,
        }
    }
}

impl Write for SimWriter {
    fn write(&mut self, buf: &[u8]) -> io::Result<usize> {
        let call = self.calls;
        self.calls += 1;
        if self.fault_fired {
            self.calls_after_fault += 1;
        }
        if buf.is_empty() {
            return Ok(0);
        }
        if self.full {
            return Ok(0);
        }
        let mut limit = buf.len();
        if let Some((k, f)) = self.plan.fault {
            if !self.fault_fired {
                if self.accepted.len() == k {
                    self.fault_fired = true;
                    match f {
                        HardFault::Error => return Err(injected_error(self.plan.token)),
                        HardFault::Zero => {
                            self.full = true;
                            return Ok(0);
                        }
                    }
                } else if self.accepted.len() < k {
                    // a call that straddles k accepts only the bytes before k
                    limit = limit.min(k - self.accepted.len());
                }
            }
        }
        let (eintr, n) = self.plan.chunking.decide(call, self.eintr_run, limit);
        if eintr {
            self.eintr_run += 1;
            self.eintrs += 1;
            return Err(io::Error::new(io::ErrorKind::Interrupted, "simulated EINTR"));
        }
        self.eintr_run = 0;
        self.accepted.extend_from_slice(&buf[..n]);
        Ok(n)
    }
    fn flush(&mut self) -> io::Result<()> {
        self.flushes += 1;
        Ok(())
    }
}

pub const GUARD: usize = 32;

/// Output region of a chosen length inside a larger allocation, pre-filled
/// with a canary that differs from the expected encoding at every position.
pub struct SimSlice {
    buf: Vec<u8>,
    len: usize,
}

#[inline]
fn guard_byte(i: usize) -> u8 {
    0xA5u8 ^ (i as u8).wrapping_mul(31)
}

#[inline]
pub fn canary_byte(expected: &[u8], i: usize) -> u8 {
    match expected.get(i) {
        Some(b) => !*b,
        None => 0x5Au8 ^ (i as u8).wrapping_mul(7) | 0x80,
    }
}

impl SimSlice {
    pub fn new(len: usize, expected: &[u8]) -> SimSlice {
        let mut buf = vec![0u8; len + 2 * GUARD];
        for (i, b) in buf.iter_mut().enumerate() {
            *b = if i < GUARD || i >= GUARD + len {
                guard_byte(i)
            } else {
                canary_byte(expected, i - GUARD)
            };
        }
        SimSlice { buf, len }
    }
    pub fn region_mut(&mut self) -> &mut [u8] {
        let l = self.len;
        &mut self.buf[GUARD..GUARD + l]
    }
    pub fn region(&self) -> &[u8] {
        &self.buf[GUARD..GUARD + self.len]
    }
    pub fn guards_intact(&self) -> bool {
        self.buf
            .iter()
            .enumerate()
            .all(|(i, b)| !(i < GUARD || i >= GUARD + self.len) || *b == guard_byte(i))
    }
    /// Largest m such that region[..m] == expected[..m]; then checks that
    /// region[m..] is still canary. Returns Ok(m) or Err(first bad position).
    pub fn written_prefix(&self, expected: &[u8]) -> Result<usize, usize> {
        let r = self.region();
        let mut m = 0;
        while m < r.len() && m < expected.len() && r[m] == expected[m] {
            m += 1;
        }
        for i in m..r.len() {
            if r[i] != canary_byte(expected, i) {
                return Err(i);
            }
        }
        Ok(m)
    }
}
