//! Header values: harness-owned generators (all variable-length parts up to
//! their maxima) and the uniform `write` dispatcher.

use crate::prng::Rng;
use etherparse::icmpv6::Icmpv6Payload;
use etherparse::*;
use std::io::Write;

#[derive(Clone, Debug, PartialEq)]
pub enum Value {
    Eth(Ethernet2Header),
    Sll(LinuxSllHeader),
    Macsec(MacsecHeader),
    Vlan(SingleVlanHeader),
    Arp(Box<ArpPacket>),
    Auth(Box<IpAuthHeader>),
    V4(Box<Ipv4Header>),
    V6(Box<Ipv6Header>),
    /// writers: (exts, start ip number); readers: (exts, next ip number)
    V4Exts(Box<Ipv4Extensions>, IpNumber),
    V6Exts(Box<Ipv6Extensions>, IpNumber),
    RawExt(Box<Ipv6RawExtHeader>),
    Frag(Ipv6FragmentHeader),
    Ip(Box<IpHeaders>),
    /// reader result of IpHeaders::read: headers + next ip number
    IpRead(Box<IpHeaders>, IpNumber),
    Tcp(Box<TcpHeader>),
    Udp(UdpHeader),
    Icmp4(Icmpv4Header),
    Icmp6(Icmpv6Header),
    Link(LinkHeader),
    Transport(Box<TransportHeader>),
    Icmp6Payload(Icmpv6Payload),
    /// result of the skip_* readers
    Skip(IpNumber),
}

macro_rules! kinds {
    ($name:ident { $($v:ident => $s:expr),* $(,)? }) => {
        #[derive(Clone, Copy, Debug, PartialEq, Eq, Hash, PartialOrd, Ord)]
        pub enum $name { $($v),* }
        impl $name {
            pub const ALL: &'static [$name] = &[$($name::$v),*];
            pub fn name(self) -> &'static str { match self { $($name::$v => $s),* } }
            pub fn parse(s: &str) -> Result<$name, String> {
                match s { $($s => Ok($name::$v),)* _ => Err(format!("unknown kind '{s}'")) }
            }
        }
    };
}

kinds!(WKind {
    Eth => "ethernet2",
    Sll => "linux_sll",
    Macsec => "macsec",
    Vlan => "single_vlan",
    Arp => "arp",
    Auth => "ip_auth",
    V4 => "ipv4",
    V4Raw => "ipv4_raw",
    V6 => "ipv6",
    V4Exts => "ipv4_exts",
    V6Exts => "ipv6_exts",
    RawExt => "ipv6_raw_ext",
    Frag => "ipv6_fragment",
    Ip => "ip_headers",
    Tcp => "tcp",
    Udp => "udp",
    Icmp4 => "icmpv4",
    Icmp6 => "icmpv6",
    Link => "link_header",
    Transport => "transport_header",
    Icmp6Payload => "icmpv6_payload",
});

#[derive(Debug)]
pub enum WErr {
    Io(std::io::Error),
    Content(String),
}

/// `size` 0 = smallest variable parts ... 3 = anything up to the maxima.
fn var_len(r: &mut Rng, size: u32, max_units: usize) -> usize {
    match size {
        0 => 0,
        1 => r.usize_range(0, max_units.min(2)),
        2 => r.usize_range(0, max_units.min(8)),
        _ => match r.below(4) {
            0 => max_units,
            1 => r.usize_range(0, max_units.min(3)),
            _ => r.usize_range(0, max_units),
        },
    }
}

pub fn gen_ip_number_non_ext(r: &mut Rng) -> IpNumber {
    loop {
        let n = match r.below(4) {
            0 => *r.pick(&[6u8, 17, 1, 58, 2, 47, 50, 132, 255, 253]),
            _ => r.u8(),
        };
        // not an extension header in the eyes of the crate
        if !matches!(n, 0 | 43 | 44 | 51 | 60 | 135 | 139 | 140) {
            return IpNumber(n);
        }
    }
}

pub fn gen_eth(r: &mut Rng) -> Ethernet2Header {
    Ethernet2Header {
        source: r.array(),
        destination: r.array(),
        ether_type: EtherType(match r.below(3) {
            0 => *r.pick(&[0x0800u16, 0x86dd, 0x0806, 0x8100, 0x88a8, 0x9100, 0x88e5]),
            _ => r.u16(),
        }),
    }
}

pub fn gen_sll(r: &mut Rng) -> LinuxSllHeader {
    let hrd = *r.pick(&LinuxSllProtocolType::SUPPORTED_ARPHWD);
    let proto = match r.below(3) {
        0 => *r.pick(&[0x0800u16, 0x86dd, 0x0806, 0x0001, 0x0002, 0x0003, 0x0004, 0x000c]),
        _ => r.u16(),
    };
    LinuxSllHeader {
        packet_type: LinuxSllPacketType::try_from(r.below(8) as u16).unwrap(),
        arp_hrd_type: hrd,
        sender_address_valid_length: r.edgy(0, 0xffff) as u16,
        sender_address: r.array(),
        protocol_type: LinuxSllProtocolType::try_from((hrd, proto)).unwrap(),
    }
}

pub fn gen_macsec(r: &mut Rng) -> MacsecHeader {
    let ptype = match r.below(4) {
        0 => MacsecPType::Unmodified(EtherType(r.u16())),
        1 => MacsecPType::Modified,
        2 => MacsecPType::Encrypted,
        _ => MacsecPType::EncryptedUnmodified,
    };
    let short_len = loop {
        let v = r.edgy(0, 63) as u8;
        // 1 is not allowed for unmodified payloads (ether type needs 2 bytes)
        if !(matches!(ptype, MacsecPType::Unmodified(_)) && v == 1) {
            break v;
        }
    };
    MacsecHeader {
        ptype,
        endstation_id: r.bool(),
        scb: r.bool(),
        an: MacsecAn::try_new(r.below(4) as u8).unwrap(),
        short_len: MacsecShortLen::try_from_u8(short_len).unwrap(),
        packet_nr: r.u32(),
        sci: if r.bool() { Some(r.next_u64()) } else { None },
    }
}

pub fn gen_vlan(r: &mut Rng) -> SingleVlanHeader {
    SingleVlanHeader {
        pcp: VlanPcp::try_new(r.below(8) as u8).unwrap(),
        drop_eligible_indicator: r.bool(),
        vlan_id: VlanId::try_new(r.edgy(0, 0xfff) as u16).unwrap(),
        ether_type: EtherType(r.u16()),
    }
}

pub fn gen_arp(r: &mut Rng, size: u32) -> ArpPacket {
    let (hw, proto) = match size {
        0 => (0, 0),
        1 => (6, 4),
        2 => (r.usize_range(0, 16), r.usize_range(0, 16)),
        _ => (r.edgy(0, 255) as usize, r.edgy(0, 255) as usize),
    };
    // the common type constants often (also together with unusual address
    // sizes), arbitrary values otherwise
    let hw_type = match r.below(3) {
        0 => r.u16(),
        _ => *r.pick(&[1u16, 1, 1, 6, 15, 16, 18, 19, 20, 32]),
    };
    let proto_type = match r.below(3) {
        0 => r.u16(),
        _ => *r.pick(&[0x0800u16, 0x0800, 0x86dd, 0x0806, 0x8035]),
    };
    let operation = match r.below(3) {
        0 => r.u16(),
        _ => r.range(0, 10) as u16,
    };
    ArpPacket::new(
        ArpHardwareId(hw_type),
        EtherType(proto_type),
        ArpOperation(operation),
        &r.bytes(hw),
        &r.bytes(proto),
        &r.bytes(hw),
        &r.bytes(proto),
    )
    .unwrap()
}

pub fn gen_auth(r: &mut Rng, size: u32, next: IpNumber) -> IpAuthHeader {
    let icv_words = var_len(r, size, 0xfe);
    IpAuthHeader::new(next, r.u32(), r.u32(), &r.bytes(icv_words * 4)).unwrap()
}

pub fn gen_v4(r: &mut Rng, size: u32) -> Ipv4Header {
    let opt_words = var_len(r, size, 10);
    let opts = r.bytes(opt_words * 4);
    let mut h = Ipv4Header {
        dscp: IpDscp::try_new(r.below(64) as u8).unwrap(),
        ecn: IpEcn::try_new(r.below(4) as u8).unwrap(),
        total_len: 0,
        identification: r.u16(),
        dont_fragment: r.bool(),
        more_fragments: r.bool(),
        fragment_offset: IpFragOffset::try_new(r.edgy(0, 0x1fff) as u16).unwrap(),
        time_to_live: r.u8(),
        protocol: gen_ip_number_non_ext(r),
        header_checksum: r.u16(),
        source: r.array(),
        destination: r.array(),
        options: Ipv4Options::try_from(&opts[..]).unwrap(),
    };
    let hl = 20 + opt_words * 4;
    h.total_len = r.edgy(hl as u64, 0xffff) as u16;
    h
}

pub fn gen_v6(r: &mut Rng) -> Ipv6Header {
    Ipv6Header {
        traffic_class: r.u8(),
        flow_label: Ipv6FlowLabel::try_new(r.edgy(0, 0xfffff) as u32).unwrap(),
        payload_length: r.edgy(0, 0xffff) as u16,
        next_header: gen_ip_number_non_ext(r),
        hop_limit: r.u8(),
        source: r.array(),
        destination: r.array(),
    }
}

pub fn gen_raw_ext(r: &mut Rng, size: u32, next: IpNumber) -> Ipv6RawExtHeader {
    let units = var_len(r, size, 255);
    Ipv6RawExtHeader::new_raw(next, &r.bytes(6 + units * 8)).unwrap()
}

pub fn gen_frag(r: &mut Rng, next: IpNumber) -> Ipv6FragmentHeader {
    Ipv6FragmentHeader::new(
        next,
        IpFragOffset::try_new(r.edgy(0, 0x1fff) as u16).unwrap(),
        r.bool(),
        r.u32(),
    )
}

/// Consistent IPv6 extension set; returns the set and the first header value.
pub fn gen_v6_exts(r: &mut Rng, size: u32, last: IpNumber) -> (Ipv6Extensions, IpNumber) {
    let present = if size == 0 { r.below(4) } else { r.below(64) };
    let placeholder = IpNumber(59);
    let mut e = Ipv6Extensions {
        hop_by_hop_options: (present & 1 != 0).then(|| gen_raw_ext(r, size, placeholder)),
        destination_options: (present & 2 != 0).then(|| gen_raw_ext(r, size, placeholder)),
        routing: (present & 4 != 0).then(|| Ipv6RoutingExtensions {
            routing: gen_raw_ext(r, size, placeholder),
            final_destination_options: (present & 8 != 0)
                .then(|| gen_raw_ext(r, size, placeholder)),
        }),
        fragment: (present & 16 != 0).then(|| gen_frag(r, placeholder)),
        auth: (present & 32 != 0).then(|| gen_auth(r, size.min(2), placeholder)),
    };
    let first = e.set_next_headers(last);
    (e, first)
}

pub fn gen_v4_exts(r: &mut Rng, size: u32, last: IpNumber) -> (Ipv4Extensions, IpNumber) {
    let mut e = Ipv4Extensions {
        auth: r.bool().then(|| gen_auth(r, size, IpNumber(59))),
    };
    let first = e.set_next_headers(last);
    (e, first)
}

pub fn gen_ip_headers(r: &mut Rng, size: u32) -> IpHeaders {
    let last = gen_ip_number_non_ext(r);
    if r.bool() {
        let mut h = gen_v4(r, size);
        let (e, first) = gen_v4_exts(r, size, last);
        h.protocol = first;
        let min = (h.header_len() + e.header_len()) as u64;
        h.total_len = if min >= 0xffff { 0xffff } else { r.edgy(min, 0xffff) as u16 };
        IpHeaders::Ipv4(h, e)
    } else {
        let mut h = gen_v6(r);
        let (e, first) = gen_v6_exts(r, size, last);
        h.next_header = first;
        let min = e.header_len() as u64;
        h.payload_length = if min >= 0xffff { 0xffff } else { r.edgy(min, 0xffff) as u16 };
        IpHeaders::Ipv6(h, e)
    }
}

pub fn gen_tcp(r: &mut Rng, size: u32) -> TcpHeader {
    let opt_len = match size {
        0 => 0,
        _ => var_len(r, size, 40),
    };
    let mut h = TcpHeader::new(r.u16(), r.u16(), r.u32(), r.u16());
    h.acknowledgment_number = r.u32();
    let f = r.u16();
    h.ns = f & 1 != 0;
    h.fin = f & 2 != 0;
    h.syn = f & 4 != 0;
    h.rst = f & 8 != 0;
    h.psh = f & 16 != 0;
    h.ack = f & 32 != 0;
    h.urg = f & 64 != 0;
    h.ece = f & 128 != 0;
    h.cwr = f & 256 != 0;
    h.checksum = r.u16();
    h.urgent_pointer = r.u16();
    h.options = TcpOptions::try_from_slice(&r.bytes(opt_len)).unwrap();
    h
}

pub fn gen_udp(r: &mut Rng) -> UdpHeader {
    UdpHeader {
        source_port: r.u16(),
        destination_port: r.u16(),
        length: r.edgy(0, 0xffff) as u16,
        checksum: r.u16(),
    }
}

pub fn gen_icmp4(r: &mut Rng) -> Icmpv4Header {
    // shaped bytes decoded by the crate: covers every typed variant; falls
    // back to a hand-made Unknown value should the decoder refuse
    let mut b = r.bytes(20);
    b[0] = match r.below(3) {
        0 => r.u8(),
        _ => *r.pick(&[0u8, 3, 5, 8, 11, 12, 13, 14]),
    };
    // most typed messages require code 0
    b[1] = match r.below(4) {
        0 => r.u8(),
        1 => r.below(17) as u8,
        _ => 0,
    };
    match Icmpv4Header::from_slice(&b) {
        Ok((h, _)) => h,
        Err(_) => Icmpv4Header {
            icmp_type: Icmpv4Type::Unknown {
                type_u8: b[0],
                code_u8: b[1],
                bytes5to8: [b[4], b[5], b[6], b[7]],
            },
            checksum: u16::from_be_bytes([b[2], b[3]]),
        },
    }
}

pub fn gen_icmp6(r: &mut Rng) -> Icmpv6Header {
    let mut b = r.bytes(8);
    b[0] = match r.below(3) {
        0 => r.u8(),
        _ => *r.pick(&[
            1u8, 2, 3, 4, 128, 129, 130, 131, 132, 133, 134, 135, 136, 137, 143,
        ]),
    };
    b[1] = match r.below(4) {
        0 => r.u8(),
        1 => r.below(8) as u8,
        _ => 0,
    };
    match Icmpv6Header::from_slice(&b) {
        Ok((h, _)) => h,
        Err(_) => Icmpv6Header {
            icmp_type: Icmpv6Type::Unknown {
                type_u8: b[0],
                code_u8: b[1],
                bytes5to8: [b[4], b[5], b[6], b[7]],
            },
            checksum: u16::from_be_bytes([b[2], b[3]]),
        },
    }
}

pub fn gen_icmp6_payload(r: &mut Rng) -> Icmpv6Payload {
    use etherparse::icmpv6::*;
    let a: [u8; 16] = r.array();
    let b: [u8; 16] = r.array();
    match r.below(5) {
        0 => Icmpv6Payload::RouterSolicitation(RouterSolicitationPayload),
        1 => Icmpv6Payload::RouterAdvertisement(RouterAdvertisementPayload {
            reachable_time: r.u32(),
            retrans_timer: r.u32(),
        }),
        2 => Icmpv6Payload::NeighborSolicitation(NeighborSolicitationPayload {
            target_address: a.into(),
        }),
        3 => Icmpv6Payload::NeighborAdvertisement(NeighborAdvertisementPayload {
            target_address: a.into(),
        }),
        _ => Icmpv6Payload::Redirect(RedirectPayload {
            target_address: a.into(),
            destination_address: b.into(),
        }),
    }
}

pub fn gen_transport(r: &mut Rng, size: u32) -> TransportHeader {
    match r.below(4) {
        0 => TransportHeader::Udp(gen_udp(r)),
        1 => TransportHeader::Tcp(gen_tcp(r, size)),
        2 => TransportHeader::Icmpv4(gen_icmp4(r)),
        _ => TransportHeader::Icmpv6(gen_icmp6(r)),
    }
}

pub fn gen_value(kind: WKind, r: &mut Rng, size: u32) -> Value {
    match kind {
        WKind::Eth => Value::Eth(gen_eth(r)),
        WKind::Sll => Value::Sll(gen_sll(r)),
        WKind::Macsec => Value::Macsec(gen_macsec(r)),
        WKind::Vlan => Value::Vlan(gen_vlan(r)),
        WKind::Arp => Value::Arp(Box::new(gen_arp(r, size))),
        WKind::Auth => {
            let n = IpNumber(r.u8());
            Value::Auth(Box::new(gen_auth(r, size, n)))
        }
        WKind::V4 | WKind::V4Raw => Value::V4(Box::new(gen_v4(r, size))),
        WKind::V6 => Value::V6(Box::new(gen_v6(r))),
        WKind::V4Exts => {
            let last = gen_ip_number_non_ext(r);
            let (e, first) = gen_v4_exts(r, size, last);
            Value::V4Exts(Box::new(e), first)
        }
        WKind::V6Exts => {
            let last = gen_ip_number_non_ext(r);
            let (e, first) = gen_v6_exts(r, size, last);
            Value::V6Exts(Box::new(e), first)
        }
        WKind::RawExt => {
            let n = IpNumber(r.u8());
            Value::RawExt(Box::new(gen_raw_ext(r, size, n)))
        }
        WKind::Frag => {
            let n = IpNumber(r.u8());
            Value::Frag(gen_frag(r, n))
        }
        WKind::Ip => Value::Ip(Box::new(gen_ip_headers(r, size))),
        WKind::Tcp => Value::Tcp(Box::new(gen_tcp(r, size))),
        WKind::Udp => Value::Udp(gen_udp(r)),
        WKind::Icmp4 => Value::Icmp4(gen_icmp4(r)),
        WKind::Icmp6 => Value::Icmp6(gen_icmp6(r)),
        WKind::Link => Value::Link(if r.bool() {
            LinkHeader::Ethernet2(gen_eth(r))
        } else {
            LinkHeader::LinuxSll(gen_sll(r))
        }),
        WKind::Transport => Value::Transport(Box::new(gen_transport(r, size))),
        WKind::Icmp6Payload => Value::Icmp6Payload(gen_icmp6_payload(r)),
    }
}

/// The crate's `write` for the value, result normalised.
pub fn write_value<W: Write>(kind: WKind, v: &Value, w: &mut W) -> Result<(), WErr> {
    use WErr::*;
    match (kind, v) {
        (WKind::Eth, Value::Eth(h)) => h.write(w).map_err(Io),
        (WKind::Sll, Value::Sll(h)) => h.write(w).map_err(Io),
        (WKind::Macsec, Value::Macsec(h)) => h.write(w).map_err(Io),
        (WKind::Vlan, Value::Vlan(h)) => h.write(w).map_err(Io),
        (WKind::Arp, Value::Arp(h)) => h.write(w).map_err(Io),
        (WKind::Auth, Value::Auth(h)) => h.write(w).map_err(Io),
        (WKind::V4, Value::V4(h)) => h.write(w).map_err(Io),
        (WKind::V4Raw, Value::V4(h)) => h.write_raw(w).map_err(Io),
        (WKind::V6, Value::V6(h)) => h.write(w).map_err(Io),
        (WKind::V4Exts, Value::V4Exts(e, start)) => e.write(w, *start).map_err(|e| {
            use etherparse::err::ipv4_exts::HeaderWriteError as E;
            match e {
                E::Io(e) => Io(e),
                E::Content(c) => Content(format!("{c:?}")),
            }
        }),
        (WKind::V6Exts, Value::V6Exts(e, start)) => e.write(w, *start).map_err(|e| {
            use etherparse::err::ipv6_exts::HeaderWriteError as E;
            match e {
                E::Io(e) => Io(e),
                E::Content(c) => Content(format!("{c:?}")),
            }
        }),
        (WKind::RawExt, Value::RawExt(h)) => h.write(w).map_err(Io),
        (WKind::Frag, Value::Frag(h)) => h.write(w).map_err(Io),
        (WKind::Ip, Value::Ip(h)) => h.write(w).map_err(|e| {
            use etherparse::err::ip::HeadersWriteError as E;
            match e {
                E::Io(e) => Io(e),
                other => Content(format!("{other:?}")),
            }
        }),
        (WKind::Tcp, Value::Tcp(h)) => h.write(w).map_err(Io),
        (WKind::Udp, Value::Udp(h)) => h.write(w).map_err(Io),
        (WKind::Icmp4, Value::Icmp4(h)) => h.write(w).map_err(Io),
        (WKind::Icmp6, Value::Icmp6(h)) => h.write(w).map_err(Io),
        (WKind::Link, Value::Link(h)) => h.write(w).map_err(Io),
        (WKind::Transport, Value::Transport(h)) => h.write(w).map_err(Io),
        (WKind::Icmp6Payload, Value::Icmp6Payload(h)) => h.write(w).map_err(Io),
        (k, v) => panic!("harness: kind {k:?} does not match value {v:?}"),
    }
}
