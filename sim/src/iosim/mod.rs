//! `iosim`: simulated byte streams and buffers around the crate's readers,
//! writers, slice writers, LimitedReader and PacketBuilder sinks.

pub mod builder;
pub mod cases;
pub mod media;
pub mod readers;
pub mod values;

use crate::json::J;
use crate::prng::{fnv64, mix, Digest, Rng};
use crate::stats::{Stats, Violation};
use cases::*;
use media::*;
use readers::*;
use values::*;

pub const ENGINE_ID: u64 = 0x10_51_4d;

fn violation(case: &Case, f: Fail) -> Violation {
    Violation {
        property: case.property().to_string(),
        class: f.0,
        detail: f.1,
        case: case.to_json(),
    }
}

/// Runs `f`, converting a panic into a failure of class "panic".
pub fn guarded<T>(f: impl FnOnce() -> Result<T, Fail>) -> Result<T, Fail> {
    let prev = crate::runner::set_guarded(true);
    let res = std::panic::catch_unwind(std::panic::AssertUnwindSafe(f));
    crate::runner::set_guarded(prev);
    match res {
        Ok(r) => r,
        Err(p) => {
            let msg = if let Some(s) = p.downcast_ref::<&str>() {
                s.to_string()
            } else if let Some(s) = p.downcast_ref::<String>() {
                s.clone()
            } else {
                "panic".to_string()
            };
            Err(("panic".to_string(), format!("panicked: {msg}")))
        }
    }
}

/// `guarded`, announcing the case first when the runner is in trace mode.
fn traced<T>(mk: impl FnOnce() -> Case, f: impl FnOnce() -> Result<T, Fail>) -> Result<T, Fail> {
    if crate::runner::tracing() {
        crate::runner::announce_case(&mk().to_json());
    }
    guarded(f)
}

pub fn check_case_guarded(case: &Case) -> Result<(), Fail> {
    guarded(|| case.check())
}

fn pick_size(r: &mut Rng) -> u32 {
    match r.below(20) {
        0..=3 => 0,
        4..=10 => 1,
        11..=17 => 2,
        _ => 3,
    }
}

fn part_of(bounds: &[usize], k: usize) -> usize {
    bounds.iter().filter(|b| **b <= k).count()
}

/// Positions to fault for an encoding of length n: all of them up to 4096
/// bytes; for larger encodings all positions of the first 2048 bytes, every
/// part boundary +-1 and 64 seeded positions in the remainder.
fn fault_positions(n: usize, bounds: &[usize], r: &mut Rng) -> (Vec<usize>, bool) {
    if n <= 4096 {
        return ((0..=n).collect(), true);
    }
    let mut v: Vec<usize> = (0..2048).collect();
    for b in bounds {
        for d in [b.saturating_sub(1), *b, b + 1] {
            if d <= n {
                v.push(d);
            }
        }
    }
    for _ in 0..64 {
        v.push(r.usize_range(2048, n));
    }
    v.push(n);
    v.sort_unstable();
    v.dedup();
    (v, false)
}

// ======================================================================= C16

#[derive(Clone, Copy, Debug)]
enum Family {
    Write(WKind),
    WriteSlice(WKind),
    Build,
    Read(RKind),
    Limited,
}

fn c16_families() -> Vec<Family> {
    let mut v = Vec::new();
    for k in WKind::ALL {
        v.push(Family::Write(*k));
    }
    v.push(Family::WriteSlice(WKind::Eth));
    v.push(Family::WriteSlice(WKind::Sll));
    for _ in 0..12 {
        v.push(Family::Build);
    }
    for k in RKind::ALL {
        v.push(Family::Read(*k));
    }
    v.push(Family::Limited);
    v.push(Family::Limited);
    v
}

struct Local {
    exec: u64,
    err_fired: u64,
    zero_fired: u64,
    eintrs: u64,
    exact_k: u64,
    calls_after_fault: u64,
}

pub fn run_c16(seed: u64, run: u64, stats: &mut Stats) -> Vec<Violation> {
    let fams = c16_families();
    let fam = fams[(run % fams.len() as u64) as usize];
    let rs = mix(&[seed, ENGINE_ID, 16, run]);
    let root = Rng::new(rs);
    let mut cfg = root.sub(1); // swarm configuration
    let mut aux = root.sub(3); // per-event decisions
    let size = pick_size(&mut cfg);
    let vseed = mix(&[rs, 2]);
    let chunk_seed = mix(&[rs, 4]);
    let mut out = Vec::new();
    let mut l = Local {
        exec: 0,
        err_fired: 0,
        zero_fired: 0,
        eintrs: 0,
        exact_k: 0,
        calls_after_fault: 0,
    };
    // chunking used for the hard-fault sweep of this run (swarm)
    let block = *cfg.pick(&[2usize, 3, 4, 5, 7, 8, 12, 13, 16, 20, 32]);
    let sweep_chunkings: Vec<Chunking> = match cfg.below(6) {
        0 => vec![Chunking::Whole],
        1 => vec![Chunking::Whole, Chunking::One],
        2 => vec![Chunking::Whole, Chunking::RandomEintr(chunk_seed)],
        3 => vec![Chunking::Whole, Chunking::Fixed(block)],
        4 => vec![Chunking::Fixed(block)],
        _ => vec![Chunking::Random(chunk_seed)],
    };
    let benign = [
        Chunking::Whole,
        Chunking::One,
        Chunking::Random(chunk_seed),
        Chunking::RandomEintr(chunk_seed ^ 1),
        Chunking::Fixed(block),
    ];
    macro_rules! report {
        ($case:expr, $f:expr) => {{
            out.push(violation(&$case, $f));
            if out.len() >= 3 {
                flush_c16(stats, &l);
                return out;
            }
        }};
    }
    match fam {
        Family::Write(kind) => {
            let v = value_of(kind, vseed, size);
            let mk = |plan: WriterPlan| Case::Write {
                kind,
                vseed,
                size,
                plan,
            };
            let r = match guarded(|| write_reference(kind, &v)) {
                Ok(Some(r)) => r,
                Ok(None) => {
                    stats.inc("c16.reference_content_error");
                    return out;
                }
                Err(f) => {
                    out.push(violation(&mk(WriterPlan::clean(Chunking::Whole)), f));
                    return out;
                }
            };
            let vd = fnv64(&r.e);
            stats.add(&format!("c16.values.write.{}", kind.name()), 1);
            for c in benign {
                let plan = WriterPlan::clean(c);
                l.exec += 1;
                match traced(|| mk(plan.clone()), || check_write(kind, &v, &r, &plan)) {
                    Ok(o) => l.eintrs += o.eintrs as u64,
                    Err(f) => report!(mk(plan), f),
                }
            }
            let (positions, all) = fault_positions(r.e.len(), &r.bounds, &mut aux);
            stats.add(if all { "c16.values_all_positions" } else { "c16.values_sampled_positions" }, 1);
            for c in &sweep_chunkings {
                for &k in &positions {
                    for f in [HardFault::Error, HardFault::Zero] {
                        let plan = WriterPlan {
                            chunking: *c,
                            fault: Some((k, f)),
                            token: mix(&[vseed, k as u64]) >> 8,
                        };
                        l.exec += 1;
                        match traced(|| mk(plan.clone()), || check_write(kind, &v, &r, &plan)) {
                            Ok(o) => {
                                if o.fault_fired {
                                    match f {
                                        HardFault::Error => l.err_fired += 1,
                                        HardFault::Zero => l.zero_fired += 1,
                                    }
                                    let part = part_of(&r.bounds, k);
                                    stats.mark(
                                        "c16.parts",
                                        mix(&[1, kind as u64, part as u64]),
                                    );
                                    stats.mark(
                                        "nontrivial",
                                        mix(&[1, kind as u64, vd, f as u64, k as u64]),
                                    );
                                    if part >= 1 {
                                        stats.add(&format!("c16.fault_in_part{}.{}", part.min(6), kind.name()), 1);
                                    }
                                }
                                l.exact_k += u64::from(o.exact_k);
                                l.eintrs += o.eintrs as u64;
                                l.calls_after_fault += o.calls_after_fault as u64;
                            }
                            Err(fl) => report!(mk(plan), fl),
                        }
                    }
                }
            }
            if run % 97 == 0 {
                stats.sample(
                    mk(WriterPlan {
                        chunking: sweep_chunkings[0],
                        fault: Some((r.e.len() / 2, HardFault::Error)),
                        token: 7,
                    })
                    .to_json()
                    .set("encoded_len", J::u(r.e.len() as u64))
                    .set("positions_swept", J::u(positions.len() as u64)),
                );
            }
        }
        Family::WriteSlice(kind) => {
            let v = value_of(kind, vseed, size);
            let mk = |len: usize| Case::WriteSlice {
                kind,
                vseed,
                size,
                len,
            };
            let r = match guarded(|| write_reference(kind, &v)) {
                Ok(Some(r)) => r,
                Ok(None) => return out,
                Err(f) => {
                    out.push(violation(&mk(0), f));
                    return out;
                }
            };
            let vd = fnv64(&r.e);
            stats.add(&format!("c16.values.write_to_slice.{}", kind.name()), 1);
            // every length 0..=|E|+1, plus some roomier slices (minimum frame
            // sizes, MTU, powers of two) whose rest must stay untouched
            let mut lens: Vec<usize> = (0..=r.e.len() + 1).collect();
            for extra in [2usize, 8, 46, 50, 64, 128, 256, 1500, 2048] {
                lens.push(r.e.len() + extra);
            }
            for len in lens {
                l.exec += 1;
                match traced(|| mk(len), || check_write_slice(kind, &v, &r, len)) {
                    Ok(o) => {
                        if len < r.e.len() {
                            stats.mark("nontrivial", mix(&[2, kind as u64, vd, len as u64]));
                            stats.add("c16.short_slice", 1);
                            if o.prefix_len > 0 {
                                stats.add("c16.short_slice_partial_prefix_written", 1);
                            }
                        }
                    }
                    Err(f) => report!(mk(len), f),
                }
            }
        }
        Family::Build => {
            // now and then the largest payload the stacking can encode
            let size = if cfg.chance(1, 150) { 4 } else { size };
            if size == 4 {
                stats.inc("c16.values.build.maximum_payload");
            }
            let bseed = vseed;
            let spec = bspec_of(bseed, size);
            let mk = |sink: Sink| Case::Build { bseed, size, sink };
            let r = match guarded(|| build_reference(&spec)) {
                Ok(Some(r)) => r,
                Ok(None) => {
                    stats.inc("c16.build_reference_content_error");
                    return out;
                }
                Err(f) => {
                    out.push(violation(&mk(Sink::Vec), f));
                    return out;
                }
            };
            let vd = fnv64(&r.e);
            let step = spec.build().step_name();
            stats.add(&format!("c16.values.build.{step}"), 1);
            stats.mark("c16.build_configs", fnv64(spec.describe().split("/payload").next().unwrap().as_bytes()));
            l.exec += 1;
            if let Err(f) = traced(|| mk(Sink::Vec), || check_build(&spec, &r, &Sink::Vec)) {
                report!(mk(Sink::Vec), f);
            }
            for c in benign {
                let plan = WriterPlan::clean(c);
                l.exec += 1;
                match traced(|| mk(Sink::Io(plan.clone())), || check_build(&spec, &r, &Sink::Io(plan.clone()))) {
                    Ok(BObs::W(o)) => l.eintrs += o.eintrs as u64,
                    Ok(_) => {}
                    Err(f) => report!(mk(Sink::Io(plan)), f),
                }
            }
            let (positions, all) = fault_positions(r.e.len(), &r.bounds, &mut aux);
            stats.add(if all { "c16.values_all_positions" } else { "c16.values_sampled_positions" }, 1);
            for c in &sweep_chunkings {
                for &k in &positions {
                    for f in [HardFault::Error, HardFault::Zero] {
                        let plan = WriterPlan {
                            chunking: *c,
                            fault: Some((k, f)),
                            token: mix(&[vseed, k as u64]) >> 8,
                        };
                        l.exec += 1;
                        match traced(|| mk(Sink::Io(plan.clone())), || check_build(&spec, &r, &Sink::Io(plan.clone()))) {
                            Ok(BObs::W(o)) => {
                                if o.fault_fired {
                                    match f {
                                        HardFault::Error => l.err_fired += 1,
                                        HardFault::Zero => l.zero_fired += 1,
                                    }
                                    let part = part_of(&r.bounds, k);
                                    stats.mark("c16.parts", mix(&[3, fnv64(step.as_bytes()), part as u64, r.bounds.len() as u64]));
                                    stats.mark("nontrivial", mix(&[3, vd, f as u64, k as u64]));
                                    stats.add(&format!("c16.build_fault_in_part{}", part.min(8)), 1);
                                }
                                l.exact_k += u64::from(o.exact_k);
                                l.eintrs += o.eintrs as u64;
                                l.calls_after_fault += o.calls_after_fault as u64;
                            }
                            Ok(_) => {}
                            Err(fl) => report!(mk(Sink::Io(plan)), fl),
                        }
                    }
                }
            }
            // every output slice length 0..=|E|+1 (sampled like the fault
            // positions for very large packets)
            let mut lens = positions.clone();
            lens.push(r.e.len() + 1);
            for extra in [2usize, 8, 46, 64, 256, 1500] {
                lens.push(r.e.len() + extra);
            }
            for len in lens {
                l.exec += 1;
                match traced(|| mk(Sink::Slice(len)), || check_build(&spec, &r, &Sink::Slice(len))) {
                    Ok(_) => {
                        if len < r.e.len() {
                            stats.mark("nontrivial", mix(&[4, vd, len as u64]));
                            stats.add("c16.short_slice", 1);
                        }
                    }
                    Err(f) => report!(mk(Sink::Slice(len)), f),
                }
            }
            if run % 31 == 0 {
                stats.sample(
                    mk(Sink::Io(WriterPlan {
                        chunking: sweep_chunkings[0],
                        fault: Some((r.e.len() / 2, HardFault::Zero)),
                        token: 7,
                    }))
                    .to_json()
                    .set("encoded_len", J::u(r.e.len() as u64))
                    .set("parts", J::u(r.bounds.len() as u64)),
                );
            }
        }
        Family::Read(kind) => {
            let mut g = Rng::new(vseed);
            let (op, base) = gen_reader_input(kind, &mut g, size, &mut cfg);
            let streams = damaged_variants(&base, &mut cfg, &mut aux, kind, 3);
            stats.add(&format!("c16.values.read.{}", kind.name()), 1);
            // the intact stream cut at every byte of what the operation
            // consumes (beyond 96 bytes: every 7th cut and the last 16)
            if !(kind.first_byte_is_param() && base.is_empty()) {
                let consumed = {
                    let w = run_read(&op, &base, &ReaderPlan::clean(Chunking::Whole));
                    if matches!(w.out, ROut::Ok(_)) { w.pos as usize + usize::from(kind.first_byte_is_param()) } else { 0 }
                };
                for cut in 0..consumed.min(base.len()) {
                    if consumed > 96 && cut % 7 != 0 && cut + 16 < consumed {
                        continue;
                    }
                    l.exec += 1;
                    let mkc = || Case::Cut { op: op.clone(), stream: base.clone(), cut };
                    match traced(mkc, || check_cut(&op, &base, cut)) {
                        Ok(true) => {
                            stats.add("c16.stream_cut_inside_header", 1);
                            stats.mark("nontrivial", mix(&[8, kind as u64, fnv64(&base), cut as u64]));
                        }
                        Ok(false) => {}
                        Err(f) => report!(mkc(), f),
                    }
                }
            }
            for stream in streams {
                if kind.first_byte_is_param() && stream.is_empty() {
                    continue;
                }
                let sd = fnv64(&stream);
                let mk = |plan: ReaderPlan| Case::Read {
                    op: op.clone(),
                    stream: stream.clone(),
                    plan,
                };
                for c in benign {
                    let plan = ReaderPlan::clean(c);
                    l.exec += 1;
                    match traced(|| mk(plan.clone()), || check_read(&op, &stream, &plan)) {
                        Ok(o) => l.eintrs += o.eintrs as u64,
                        Err(f) => report!(mk(plan), f),
                    }
                }
                for c in &sweep_chunkings {
                    // number of calls of the fault-free run with this chunking
                    let n = match traced(|| mk(ReaderPlan::clean(*c)), || Ok(run_read(&op, &stream, &ReaderPlan::clean(*c)).calls.len())) {
                        Ok(n) => n,
                        Err(f) => {
                            report!(mk(ReaderPlan::clean(*c)), f);
                            continue;
                        }
                    };
                    for j in 0..=n {
                        for f in [HardFault::Error, HardFault::Zero] {
                            let plan = ReaderPlan {
                                chunking: *c,
                                fault: Some((j, f)),
                                token: mix(&[vseed, j as u64]) >> 8,
                                inspect: false,
                                over_report: None,
                            };
                            l.exec += 1;
                            match traced(|| mk(plan.clone()), || check_read(&op, &stream, &plan)) {
                                Ok(o) => {
                                    if o.fault_fired {
                                        match f {
                                            HardFault::Error => l.err_fired += 1,
                                            HardFault::Zero => l.zero_fired += 1,
                                        }
                                        stats.mark("nontrivial", mix(&[5, kind as u64, sd, f as u64, j as u64, c.name().len() as u64]));
                                        if *c == Chunking::Whole {
                                            stats.mark("c16.parts", mix(&[5, kind as u64, j as u64]));
                                            if j >= 1 {
                                                stats.add(&format!("c16.fault_in_call{}.{}", j.min(8), kind.name()), 1);
                                            }
                                        }
                                    }
                                    l.eintrs += o.eintrs as u64;
                                    l.calls_after_fault += o.calls_after_fault as u64;
                                }
                                Err(fl) => report!(mk(plan), fl),
                            }
                        }
                    }
                }
                if run % 53 == 0 {
                    stats.sample(mk(ReaderPlan {
                        chunking: sweep_chunkings[0],
                        fault: Some((1, HardFault::Zero)),
                        token: 7,
                        inspect: false,
                                over_report: None,
                    })
                    .to_json());
                }
            }
        }
        Family::Limited => {
            let mut g = Rng::new(vseed);
            let data_len = g.usize_range(0, 300);
            let limit = match g.below(4) {
                0 => data_len,
                1 => g.usize_range(0, data_len.max(1)),
                2 => data_len + g.usize_range(1, 40),
                _ => g.usize_range(0, 64),
            };
            let nops = g.usize_range(1, 12);
            let mut ops = Vec::new();
            for _ in 0..nops {
                if g.chance(1, 4) {
                    ops.push(LOp::Layer);
                } else {
                    let n = match g.below(5) {
                        0 => 0,
                        1 => g.usize_range(1, 4),
                        2 => g.usize_range(1, 40),
                        3 => limit,
                        _ => g.usize_range(1, limit.max(2)),
                    };
                    ops.push(LOp::Read(n));
                }
            }
            stats.add("c16.values.limited", 1);
            let mk = |plan: ReaderPlan| Case::Limited {
                data_len,
                limit,
                ops: ops.clone(),
                plan,
            };
            let od = {
                let mut d = Digest::new();
                d.u64(data_len as u64);
                d.u64(limit as u64);
                for o in &ops {
                    match o {
                        LOp::Read(n) => d.u64(*n as u64),
                        LOp::Layer => d.u64(u64::MAX),
                    }
                }
                d.finish()
            };
            for c in benign {
                let plan = ReaderPlan::clean(c);
                l.exec += 1;
                match traced(|| mk(plan.clone()), || check_limited(data_len, limit, &ops, &plan)) {
                    Ok(o) => {
                        stats.add("c16.limited.len_errors", o.len_errors as u64);
                        stats.add("c16.limited.reads_ok", o.reads_ok as u64);
                        stats.add("c16.limited.natural_eof", o.io_errors as u64);
                        stats.add("c16.limited.start_layer", o.layers as u64);
                        if o.len_errors > 0 {
                            stats.mark("nontrivial", mix(&[6, od, c.name().len() as u64]));
                        }
                    }
                    Err(f) => report!(mk(plan), f),
                }
            }
            let lim_chunkings = if sweep_chunkings[0] == Chunking::Whole { vec![Chunking::Whole] } else { vec![Chunking::Whole, sweep_chunkings[0]] };
            for lc in lim_chunkings {
            for j in 0..24usize {
                for f in [HardFault::Error, HardFault::Zero] {
                    let plan = ReaderPlan {
                        chunking: lc,
                        fault: Some((j, f)),
                        token: mix(&[vseed, j as u64]) >> 8,
                        inspect: false,
                                over_report: None,
                    };
                    l.exec += 1;
                    match traced(|| mk(plan.clone()), || check_limited(data_len, limit, &ops, &plan)) {
                        Ok(o) => {
                            stats.add("c16.limited.continued_after_one_shot_error", o.continued_after_error as u64);
                            if o.fault_fired {
                                match f {
                                    HardFault::Error => l.err_fired += 1,
                                    HardFault::Zero => l.zero_fired += 1,
                                }
                                stats.mark("nontrivial", mix(&[7, od, f as u64, j as u64]));
                            }
                        }
                        Err(fl) => report!(mk(plan), fl),
                    }
                }
            }
            }
            if run % 41 == 0 {
                stats.sample(mk(ReaderPlan::clean(Chunking::Whole)).to_json());
            }
        }
    }
    flush_c16(stats, &l);
    out
}

fn flush_c16(stats: &mut Stats, l: &Local) {
    stats.add("executions", l.exec);
    stats.add("fault_fired.io_error", l.err_fired);
    stats.add("fault_fired.zero_transfer", l.zero_fired);
    stats.add("fault_fired.eintr", l.eintrs);
    stats.add("c16.fault_at_exact_byte", l.exact_k);
    stats.add("c16.calls_after_fault", l.calls_after_fault);
}

// ============================================================ reader inputs

fn encode(kind: WKind, v: &Value) -> Vec<u8> {
    let mut out = Vec::new();
    // a Vec never fails; content errors leave what was written so far
    let _ = write_value(kind, v, &mut out);
    out
}

/// A reader operation together with a well-formed stream for it
/// (header encoding followed by filler).
pub fn gen_reader_input(kind: RKind, g: &mut Rng, size: u32, cfg: &mut Rng) -> (ROp, Vec<u8>) {
    let mut ip_number = 0u8;
    let mut bytes = match kind {
        RKind::Eth => encode(WKind::Eth, &gen_value(WKind::Eth, g, size)),
        RKind::Sll => encode(WKind::Sll, &gen_value(WKind::Sll, g, size)),
        RKind::Macsec => encode(WKind::Macsec, &gen_value(WKind::Macsec, g, size)),
        RKind::Vlan => encode(WKind::Vlan, &gen_value(WKind::Vlan, g, size)),
        RKind::Arp => encode(WKind::Arp, &gen_value(WKind::Arp, g, size)),
        RKind::Auth | RKind::AuthLimited => encode(WKind::Auth, &gen_value(WKind::Auth, g, size)),
        RKind::V4 | RKind::V4NoVersion => encode(WKind::V4Raw, &gen_value(WKind::V4, g, size)),
        RKind::V6 | RKind::V6NoVersion => encode(WKind::V6, &gen_value(WKind::V6, g, size)),
        RKind::V6SkipExt => {
            let next = IpNumberGen::any(g);
            match g.below(8) {
                0 => {
                    ip_number = 44;
                    encode(WKind::Frag, &Value::Frag(gen_frag(g, next)))
                }
                1 => {
                    ip_number = 51;
                    let mut b = encode(WKind::Auth, &Value::Auth(Box::new(gen_auth(g, size, next))));
                    if g.chance(1, 5) && b.len() >= 8 {
                        // length octet 0: for the skip functions an 8-byte header
                        b[1] = 0;
                        b.truncate(8);
                    }
                    b
                }
                2 => {
                    // not an extension header: nothing must be consumed
                    ip_number = gen_ip_number_non_ext(g).0;
                    g.bytes(16)
                }
                _ => {
                    ip_number = *g.pick(&[0u8, 43, 60, 135, 139, 140]);
                    encode(WKind::RawExt, &Value::RawExt(Box::new(gen_raw_ext(g, size, next))))
                }
            }
        }
        RKind::V6SkipAllExts | RKind::V6Exts | RKind::V6ExtsLimited if g.chance(1, 3) => {
            // hand-encoded chain in arbitrary (also non-canonical) order:
            // repeated headers, AH in front of a fragment header, a second
            // routing header, hop-by-hop in the middle, mobility/HIP/shim6
            let (first, bytes) = gen_raw_chain(g, size, kind == RKind::V6SkipAllExts);
            ip_number = first;
            bytes
        }
        RKind::V6SkipAllExts | RKind::V6Exts | RKind::V6ExtsLimited => {
            let last = if g.chance(1, 6) {
                // chain that runs into another extension header
                etherparse::IpNumber(*g.pick(&[0u8, 43, 44, 51, 60, 135, 139, 140]))
            } else {
                gen_ip_number_non_ext(g)
            };
            let (e, first) = gen_v6_exts(g, size, last);
            ip_number = first.0;
            if first.0 == 0 && e.hop_by_hop_options.is_none() {
                // Ipv6Extensions::write(_, 0) without a hop-by-hop header
                // panics (DESIGN 6.5, outside the decided scope): the stream
                // then consists of filler only
                Vec::new()
            } else {
                encode(WKind::V6Exts, &Value::V6Exts(Box::new(e), first))
            }
        }
        RKind::V4Exts | RKind::V4ExtsLimited => {
            let last = gen_ip_number_non_ext(g);
            let (e, first) = gen_v4_exts(g, size, last);
            ip_number = first.0;
            encode(WKind::V4Exts, &Value::V4Exts(Box::new(e), first))
        }
        RKind::RawExt | RKind::RawExtLimited => {
            encode(WKind::RawExt, &gen_value(WKind::RawExt, g, size))
        }
        RKind::Frag | RKind::FragLimited => encode(WKind::Frag, &gen_value(WKind::Frag, g, size)),
        RKind::Ip => {
            if g.chance(1, 5) {
                // IPv6 header followed by a hand-encoded chain
                let (first, chain) = gen_raw_chain(g, size.min(2), false);
                let mut h6 = gen_v6(g);
                h6.next_header = etherparse::IpNumber(first);
                h6.payload_length = match g.below(6) {
                    0 => g.usize_range(0, chain.len()) as u16,
                    1 => chain.len() as u16,
                    _ => (chain.len() + g.usize_range(0, 32)) as u16,
                };
                let mut out = Vec::new();
                let _ = h6.write(&mut out);
                out.extend_from_slice(&chain);
                align_announced_length(&mut out, g);
                return finish_reader_input(kind, ip_number, out, g, cfg);
            }
            let mut h = gen_ip_headers(g, size.min(2));
            // announced length close to the header chain (sometimes below it)
            match &mut h {
                etherparse::IpHeaders::Ipv4(h4, e) => {
                    let hl = h4.header_len();
                    let min = hl + e.header_len();
                    h4.total_len = match g.below(8) {
                        0 => g.usize_range(0, hl) as u16,
                        1 => g.usize_range(hl, min) as u16,
                        2 => min as u16,
                        _ => (min + g.usize_range(0, 48)) as u16,
                    };
                }
                etherparse::IpHeaders::Ipv6(h6, e) => {
                    let min = e.header_len();
                    h6.payload_length = match g.below(8) {
                        0 => 0,
                        1 => g.usize_range(0, min) as u16,
                        2 => min as u16,
                        _ => (min + g.usize_range(0, 48)) as u16,
                    };
                }
            }
            // write_raw keeps the chosen length fields
            let mut out = Vec::new();
            match &h {
                etherparse::IpHeaders::Ipv4(h4, e) => {
                    let _ = h4.write_raw(&mut out);
                    let _ = e.write(&mut out, h4.protocol);
                }
                etherparse::IpHeaders::Ipv6(h6, e) => {
                    let _ = h6.write(&mut out);
                    let _ = e.write(&mut out, h6.next_header);
                }
            }
            align_announced_length(&mut out, g);
            out
        }
        RKind::Tcp => encode(WKind::Tcp, &gen_value(WKind::Tcp, g, size)),
        RKind::Udp => encode(WKind::Udp, &gen_value(WKind::Udp, g, size)),
        RKind::Icmp4 => encode(WKind::Icmp4, &gen_value(WKind::Icmp4, g, size)),
        RKind::Icmp6 => encode(WKind::Icmp6, &gen_value(WKind::Icmp6, g, size)),
    };
    finish_reader_input(kind, ip_number, bytes, g, cfg)
}

/// Offsets at which the headers of an extension chain end (raw walk).
fn chain_boundaries(first: u8, bytes: &[u8]) -> Vec<usize> {
    let mut out = Vec::new();
    let mut next = first;
    let mut at = 0usize;
    loop {
        let rest = &bytes[at.min(bytes.len())..];
        let len = match next {
            44 => 8,
            51 if rest.len() >= 2 => (usize::from(rest[1]) + 2) * 4,
            0 | 43 | 60 | 135 | 139 | 140 if rest.len() >= 2 => (usize::from(rest[1]) + 1) * 8,
            _ => break,
        };
        if rest.len() < len || out.len() >= 12 {
            break;
        }
        next = rest[0];
        at += len;
        out.push(at);
    }
    out
}

/// Extension header chain encoded by hand: 1..=7 headers in arbitrary order.
/// Returns the first header's ip number and the bytes.
fn gen_raw_chain(g: &mut Rng, size: u32, with_skippable_only_kinds: bool) -> (u8, Vec<u8>) {
    let n = g.usize_range(1, 7);
    let mut kinds: Vec<u8> = Vec::new();
    for i in 0..n {
        let pool: &[u8] = if with_skippable_only_kinds {
            &[0, 43, 44, 51, 60, 60, 43, 135, 139, 140]
        } else {
            &[0, 43, 44, 51, 60, 60, 43, 51, 44]
        };
        let mut k = *g.pick(pool);
        // hop-by-hop mostly (not always) only at the start
        if k == 0 && i > 0 && !g.chance(1, 4) {
            k = 60;
        }
        kinds.push(k);
    }
    let last = if g.chance(1, 5) { *g.pick(&[0u8, 43, 44, 51, 60]) } else { gen_ip_number_non_ext(g).0 };
    let mut out = Vec::new();
    for (i, k) in kinds.iter().enumerate() {
        let next = kinds.get(i + 1).copied().unwrap_or(last);
        match k {
            44 => {
                out.push(next);
                out.push(g.u8());
                out.extend_from_slice(&g.u16().to_be_bytes());
                out.extend_from_slice(&g.u32().to_be_bytes());
            }
            51 => {
                let words = match size {
                    0 => 0,
                    1 => g.usize_range(0, 2),
                    _ => g.usize_range(0, 12),
                };
                if with_skippable_only_kinds && g.chance(1, 8) {
                    // length octet 0 (8 bytes for the skip functions)
                    out.push(next);
                    out.push(0);
                    out.extend_from_slice(&g.bytes(6));
                    continue;
                }
                out.push(next);
                out.push((words + 1) as u8);
                out.extend_from_slice(&g.bytes(2 + 8 + words * 4));
            }
            _ => {
                let units = match size {
                    0 => 0,
                    1 => g.usize_range(0, 1),
                    _ => g.usize_range(0, 6),
                };
                out.push(next);
                out.push(units as u8);
                out.extend_from_slice(&g.bytes(6 + units * 8));
            }
        }
    }
    (kinds[0], out)
}

/// With probability 1/4 rewrites the announced IPv4 total length / IPv6
/// payload length so that it ends on - or 1..2 bytes next to - a boundary
/// between two headers of the chain.
fn align_announced_length(ip: &mut [u8], g: &mut Rng) {
    if !g.chance(1, 4) || ip.len() < 40 {
        return;
    }
    match ip[0] >> 4 {
        6 => {
            let b = chain_boundaries(ip[6], &ip[40..]);
            if !b.is_empty() {
                let v = (*g.pick(&b) as i64 + g.range(0, 4) as i64 - 2).clamp(0, 65_535) as u16;
                ip[4..6].copy_from_slice(&v.to_be_bytes());
            }
        }
        4 => {
            let hl = usize::from(ip[0] & 0xf) * 4;
            if hl >= 20 && ip.len() >= hl {
                let mut b = vec![hl];
                b.extend(chain_boundaries(ip[9], &ip[hl..]).into_iter().map(|x| x + hl));
                let v = (*g.pick(&b) as i64 + g.range(0, 4) as i64 - 2).clamp(0, 65_535) as u16;
                ip[2..4].copy_from_slice(&v.to_be_bytes());
            }
        }
        _ => {}
    }
}

fn finish_reader_input(
    kind: RKind,
    ip_number: u8,
    mut bytes: Vec<u8>,
    g: &mut Rng,
    cfg: &mut Rng,
) -> (ROp, Vec<u8>) {
    let header_len = bytes.len();
    let filler = match cfg.below(4) {
        0 => 0,
        1 => cfg.usize_range(1, 8),
        _ => cfg.usize_range(0, 64),
    };
    let f = g.bytes(filler);
    bytes.extend_from_slice(&f);
    // limits on / next to the boundaries between the headers of a chain
    let boundaries: Vec<usize> = match kind {
        RKind::V6ExtsLimited => chain_boundaries(ip_number, &bytes[..header_len]),
        _ => Vec::new(),
    };
    let limit = if kind.is_limited() && !boundaries.is_empty() && g.chance(1, 3) {
        let b = *g.pick(&boundaries) as i64 + g.range(0, 4) as i64 - 2;
        b.max(0) as usize
    } else if kind.is_limited() {
        match g.below(8) {
            0 => header_len.saturating_sub(1),
            1 => g.usize_range(0, header_len),
            2 => 0,
            3 => header_len + g.usize_range(1, 32),
            4 => g.usize_range(0, 13),
            _ => header_len,
        }
    } else {
        0
    };
    (
        ROp {
            kind,
            ip_number,
            limit,
        },
        bytes,
    )
}

struct IpNumberGen;
impl IpNumberGen {
    fn any(g: &mut Rng) -> etherparse::IpNumber {
        etherparse::IpNumber(g.u8())
    }
}

/// The intact stream plus `n` damaged copies (byte flips biased to the first
/// 20 bytes, truncation at a seeded point) according to the swarm config.
pub fn damaged_variants(
    base: &[u8],
    cfg: &mut Rng,
    aux: &mut Rng,
    kind: RKind,
    n: usize,
) -> Vec<Vec<u8>> {
    damaged_variants_full(base, cfg, aux, kind, n)
        .into_iter()
        .map(|v| v.0)
        .collect()
}

/// Like `damaged_variants`; a truncated variant also carries the (damaged)
/// stream as it was before the cut.
pub fn damaged_variants_full(
    base: &[u8],
    cfg: &mut Rng,
    aux: &mut Rng,
    kind: RKind,
    n: usize,
) -> Vec<(Vec<u8>, Option<Vec<u8>>)> {
    let flips_on = cfg.bool();
    let trunc_on = cfg.bool() || !flips_on;
    let mut out = vec![(base.to_vec(), None)];
    for _ in 0..n {
        let mut s = base.to_vec();
        let mut did = false;
        if flips_on && !s.is_empty() && aux.chance(3, 4) {
            let nf = aux.usize_range(1, 3);
            for _ in 0..nf {
                let i = if aux.chance(3, 4) {
                    aux.usize_range(0, s.len().min(20) - 1)
                } else {
                    aux.usize_range(0, s.len() - 1)
                };
                s[i] = match aux.below(4) {
                    0 => 0,
                    1 => 0xff,
                    2 => s[i] ^ (1 << aux.below(8)),
                    _ => aux.u8(),
                };
            }
            did = true;
        }
        if flips_on && !s.is_empty() && aux.chance(1, 4) {
            // dictionary damage: a protocol constant (ether type, ARPHRD
            // value, ip number, ICMP type, length edge) instead of a random
            // byte - exact 16-bit values are out of reach of bit flips
            let mut i = aux.usize_range(0, s.len().min(24) - 1);
            // the 16-bit type fields of the fixed link headers more often
            let typed: &[usize] = match kind {
                RKind::Sll => &[0, 2, 14],
                RKind::Eth => &[12],
                RKind::Vlan => &[2],
                RKind::Arp => &[0, 2, 6],
                _ => &[],
            };
            let force16 = !typed.is_empty() && aux.bool();
            if force16 {
                i = *aux.pick(typed);
            }
            if (force16 || aux.bool()) && i + 1 < s.len() {
                let v = dict16(aux);
                s[i] = (v >> 8) as u8;
                s[i + 1] = v as u8;
            } else {
                s[i] = *aux.pick(&[
                    0u8, 1, 2, 3, 4, 5, 6, 8, 11, 12, 13, 14, 15, 17, 18, 41, 43, 44, 50, 51, 58, 59, 60,
                    128, 129, 130, 131, 132, 133, 134, 135, 136, 137, 139, 140, 143, 253, 254, 255,
                ]);
            }
            did = true;
        }
        let mut full = None;
        if trunc_on && (!did || aux.chance(1, 3)) {
            let cut = aux.usize_range(0, s.len());
            if cut < s.len() {
                full = Some(s.clone());
            }
            s.truncate(cut);
        }
        let _ = kind;
        out.push((s, full));
    }
    out
}

/// 16-bit protocol constants and edges.
fn dict16(r: &mut Rng) -> u16 {
    match r.below(6) {
        // ether types
        0 => *r.pick(&[0x0800u16, 0x86dd, 0x0806, 0x8035, 0x8100, 0x88a8, 0x9100, 0x88e5, 0x8847, 0x88cc, 0x0001, 0x0002, 0x0003, 0x0004, 0x000c, 0x00f7]),
        // ARPHRD values (Linux if_arp.h): all ranges that are assigned
        1 => {
            let ranges: [(u16, u16); 8] = [(0, 32), (256, 283), (512, 520), (768, 805), (820, 827), (0xfffe, 0xffff), (37, 37), (280, 283)];
            let (lo, hi) = *r.pick(&ranges);
            r.range(u64::from(lo), u64::from(hi)) as u16
        }
        // small values: packet types, sizes, codes
        2 => r.below(20) as u16,
        // length edges
        3 => *r.pick(&[0u16, 1, 7, 8, 19, 20, 39, 40, 59, 60, 0xff, 0x100, 0x1fff, 0x2000, 0x3fff, 0x7fff, 0x8000, 0xfffe, 0xffff]),
        4 => r.u16() & 0x00ff,
        _ => r.u16() & 0xff00,
    }
}

// ======================================================================= C06

/// Length of "the slice that holds the announced packet" for a stream,
/// extending the stream with filler when the announcement exceeds it.
fn announced_slice(kind: RKind, op: &ROp, stream: &mut Vec<u8>, g: &mut Rng) -> usize {
    match kind {
        RKind::Ip => {
            // a stream that ends inside the IP header itself is compared as
            // it is (the reader has to run out of data, like the slice)
            let base = match stream.first().map(|b| (b >> 4, b & 0xf)) {
                Some((4, ihl)) if ihl >= 5 => usize::from(ihl) * 4,
                Some((4, _)) => 20,
                Some((6, _)) => 40,
                _ => 0,
            };
            if stream.len() < base {
                return stream.len();
            }
            let want = match stream.first().map(|b| b >> 4) {
                Some(4) if stream.len() >= 4 => {
                    let hl = usize::from(stream[0] & 0xf) * 4;
                    let total = usize::from(u16::from_be_bytes([stream[2], stream[3]]));
                    Some(total.max(hl).max(20))
                }
                Some(6) if stream.len() >= 6 => {
                    Some(40 + usize::from(u16::from_be_bytes([stream[4], stream[5]])))
                }
                _ => None,
            };
            match want {
                Some(w) => {
                    if stream.len() < w {
                        let f = g.bytes(w - stream.len());
                        stream.extend_from_slice(&f);
                    }
                    w
                }
                None => stream.len(),
            }
        }
        k if k.is_limited() => op.limit.min(stream.len()),
        _ => stream.len(),
    }
}

pub fn run_c06(seed: u64, run: u64, stats: &mut Stats) -> Vec<Violation> {
    let kind = RKind::ALL[(run % RKind::ALL.len() as u64) as usize];
    let rs = mix(&[seed, ENGINE_ID, 6, run]);
    let root = Rng::new(rs);
    let mut cfg = root.sub(1);
    let mut aux = root.sub(3);
    let mut g = Rng::new(mix(&[rs, 2]));
    let size = pick_size(&mut cfg);
    let chunk_seed = mix(&[rs, 4]);
    let (op, base) = gen_reader_input(kind, &mut g, size, &mut cfg);
    let variants = damaged_variants_full(&base, &mut cfg, &mut aux, kind, 10);
    let mut out = Vec::new();
    let mut evals = 0u64;
    for (vi, (mut stream, mut full)) in variants.into_iter().enumerate() {
        if kind.first_byte_is_param() {
            if stream.is_empty() {
                continue;
            }
            // precondition of the *_without_version readers: the caller has
            // already seen the version nibble
            let v = if kind == RKind::V4NoVersion { 4 } else { 6 };
            stream[0] = (stream[0] & 0x0f) | (v << 4);
            if let Some(f) = full.as_mut() {
                f[0] = (f[0] & 0x0f) | (v << 4);
            }
        }
        let slice_len = announced_slice(kind, &op, &mut stream, &mut aux);
        // the stream a content error reported on a short input is checked
        // against: the uncut stream (length-limited readers: the stream
        // itself, which the limit cuts); not for IpHeaders, whose slice is
        // defined by the announced length
        let full: Option<Vec<u8>> = if kind == RKind::Ip {
            None
        } else if kind.is_limited() {
            Some(full.unwrap_or_else(|| stream.clone()))
        } else {
            full
        };
        let sd = fnv64(&stream);
        for c in [
            Chunking::Whole,
            Chunking::One,
            Chunking::RandomEintr(chunk_seed),
            Chunking::Fixed(2 + (chunk_seed % 15) as usize),
        ] {
            evals += 1;
            let case = Case::Cmp {
                op: op.clone(),
                stream: stream.clone(),
                slice_len,
                chunking: c,
                full: full.clone(),
            };
            match traced(|| case.clone(), || check_cmp(&op, &stream, slice_len, c, full.as_deref())) {
                Ok(o) => {
                    stats.add(&format!("c06.outcome.{}", o.class), 1);
                    if let Some(eq) = o.len_fields_equal {
                        stats.add(
                            if eq { "c06.len_error_fields_equal" } else { "c06.len_error_fields_differ" },
                            1,
                        );
                    }
                    stats.mark("c06.kind_outcome", mix(&[kind as u64, fnv64(o.class.as_bytes())]));
                    // non-trivial: damaged medium, or a decoder with a
                    // length-dependent second part
                    if vi > 0 || stream.len() > 20 {
                        stats.mark("nontrivial", mix(&[kind as u64, sd, op.limit as u64, u64::from(op.ip_number), c.name().len() as u64]));
                    }
                }
                Err(f) => {
                    out.push(violation(&case, f));
                    if out.len() >= 3 {
                        stats.add("executions", evals);
                        return out;
                    }
                }
            }
        }
        if vi == 1 && run % 29 == 0 {
            stats.sample(
                Case::Cmp {
                    op: op.clone(),
                    stream: stream.clone(),
                    slice_len,
                    chunking: Chunking::One,
                    full: full.clone(),
                }
                .to_json(),
            );
        }
    }
    stats.add(&format!("c06.values.{}", kind.name()), 1);
    stats.add("executions", evals);
    out
}

// ======================================================================= C01

pub fn run_c01(seed: u64, run: u64, stats: &mut Stats, inspect: bool) -> Vec<Violation> {
    let kind = RKind::ALL[(run % RKind::ALL.len() as u64) as usize];
    let rs = mix(&[seed, ENGINE_ID, 1, run]);
    let root = Rng::new(rs);
    let mut cfg = root.sub(1);
    let mut aux = root.sub(3);
    let mut g = Rng::new(mix(&[rs, 2]));
    // the Miri configuration runs far fewer cases: bias it to the extremes
    // (maximum lengths) and spend them on more distinct streams
    let size = if inspect && cfg.bool() { 3 } else { pick_size(&mut cfg) };
    let chunk_seed = mix(&[rs, 4]);
    let (op, mut base) = gen_reader_input(kind, &mut g, size, &mut cfg);
    if inspect && base.len() >= 2 {
        // the few Miri runs walk through the typed ICMP messages
        // deterministically instead of waiting for the generator to hit them
        let round = (run / RKind::ALL.len() as u64) as usize;
        match kind {
            RKind::Icmp4 => {
                let types = [13u8, 14, 0, 8, 3, 5, 11, 12];
                base[0] = types[round % types.len()];
                base[1] = 0;
            }
            RKind::Icmp6 => {
                let types = [1u8, 2, 3, 4, 128, 129, 133, 134, 135, 136, 137, 130, 131, 132, 143];
                base[0] = types[round % types.len()];
                base[1] = 0;
            }
            RKind::Arp => {
                // address size extremes
                let sizes = [(255u8, 255u8), (255, 254), (254, 255), (0, 0), (255, 0), (0, 255), (6, 4), (1, 1)];
                let (hw, pr) = sizes[round % sizes.len()];
                let mut b = base[..8.min(base.len())].to_vec();
                if b.len() == 8 {
                    if round % 2 == 0 {
                        // the most common type pair: Ethernet / IPv4
                        b[..4].copy_from_slice(&[0, 1, 8, 0]);
                    }
                    b[4] = hw;
                    b[5] = pr;
                    let body = 2 * (usize::from(hw) + usize::from(pr));
                    let mut fill = Rng::new(rs ^ 0xa59);
                    b.extend_from_slice(&fill.bytes(body + 4));
                    base = b;
                }
            }
            _ => {}
        }
    }
    let variants = damaged_variants(&base, &mut cfg, &mut aux, kind, if inspect { 4 } else { 6 });
    let mut out = Vec::new();
    let mut evals = 0u64;
    for (vi, stream) in variants.into_iter().enumerate() {
        if kind.first_byte_is_param() && stream.is_empty() {
            continue;
        }
        let sd = fnv64(&stream);
        let first_plan = ReaderPlan {
            chunking: Chunking::Whole,
            fault: None,
            token: 0,
            inspect,
            over_report: None,
        };
        let n_calls = match traced(
            || Case::Mem {
                op: op.clone(),
                stream: stream.clone(),
                plan: first_plan.clone(),
            },
            || Ok(run_read(&op, &stream, &first_plan).calls.len()),
        ) {
            Ok(n) => n,
            Err(f) => {
                out.push(violation(
                    &Case::Mem {
                        op: op.clone(),
                        stream: stream.clone(),
                        plan: first_plan.clone(),
                    },
                    f,
                ));
                continue;
            }
        };
        let mut plans = vec![
            ReaderPlan {
                chunking: Chunking::Whole,
                fault: None,
                token: 0,
                inspect,
                over_report: None,
            },
            ReaderPlan {
                chunking: Chunking::RandomEintr(chunk_seed),
                fault: None,
                token: 0,
                inspect,
                over_report: None,
            },
        ];
        let fault_calls: Vec<usize> = if inspect {
            // two seeded call indices instead of the first eight
            let mut v: Vec<usize> = (0..2.min(n_calls)).map(|_| aux.usize_range(0, n_calls - 1)).collect();
            v.dedup();
            v
        } else {
            (0..n_calls.min(8)).collect()
        };
        for j in fault_calls {
            plans.push(ReaderPlan {
                chunking: Chunking::Whole,
                fault: Some((j, if aux.bool() { HardFault::Error } else { HardFault::Zero })),
                token: 99,
                inspect,
                over_report: None,
            });
        }
        // a safe but lying reader: at one call it claims to have read more
        // bytes than fit into the buffer
        if n_calls > 0 {
            let j = aux.usize_range(0, n_calls - 1);
            let by = *aux.pick(&[1usize, 3, 8, 40, 200, 4096]);
            plans.push(ReaderPlan {
                chunking: if aux.bool() { Chunking::Whole } else { Chunking::Fixed(4) },
                fault: None,
                token: 0,
                inspect,
                over_report: Some((j, by)),
            });
        }
        for plan in plans {
            evals += 1;
            let case = Case::Mem {
                op: op.clone(),
                stream: stream.clone(),
                plan: plan.clone(),
            };
            // a crash (abort, signal, Miri diagnostic) ends the process and
            // is attributed to this case by the runner
            match traced(|| case.clone(), || check_mem(&op, &stream, &plan)) {
                Ok(_) => {
                    if vi > 0 || plan.fault.is_some() {
                        stats.mark(
                            "nontrivial",
                            mix(&[kind as u64, sd, plan.fault.map(|f| f.0 as u64 + 1).unwrap_or(0), plan.chunking.name().len() as u64]),
                        );
                    }
                    if plan.fault.is_some() {
                        stats.add("fault_fired.reader_fault", 1);
                    }
                    if plan.over_report.is_some() {
                        stats.add("fault_fired.reader_over_reports_bytes_read", 1);
                    }
                    if vi > 0 {
                        stats.add("fault_fired.medium_damage", 1);
                    }
                }
                Err(f) => {
                    out.push(violation(&case, f));
                    if out.len() >= 3 {
                        stats.add("executions", evals);
                        return out;
                    }
                }
            }
        }
        if vi == 1 && run % 29 == 0 {
            stats.sample(
                Case::Mem {
                    op: op.clone(),
                    stream: stream.clone(),
                    plan: ReaderPlan {
                        chunking: Chunking::Whole,
                        fault: None,
                        token: 0,
                        inspect,
                        over_report: None,
                    },
                }
                .to_json(),
            );
        }
    }
    stats.add(&format!("c01.values.{}", kind.name()), 1);
    stats.add("executions", evals);
    out
}
