//! PacketBuilder configurations (harness-owned spec, rebuilt for every
//! execution because the builder is consumed by `write*`).

use super::values::*;
use crate::prng::Rng;
use etherparse::err::packet::{BuildSliceWriteError, BuildVecWriteError, BuildWriteError};
use etherparse::*;
use std::io::Write;

#[derive(Clone, Debug)]
pub enum LinkSpec {
    None,
    Eth([u8; 6], [u8; 6]),
    Sll(u16, u16, [u8; 8]),
}

#[derive(Clone, Debug)]
pub enum VlanSpec {
    None,
    Single(u16),
    Double(u16, u16),
    Header(VlanHeader),
}

#[derive(Clone, Debug)]
pub enum NetSpec {
    V4([u8; 4], [u8; 4], u8),
    V6([u8; 16], [u8; 16], u8),
    Ip(Box<IpHeaders>),
    Arp(Box<ArpPacket>),
}

#[derive(Clone, Debug)]
pub enum TSpec {
    Udp(u16, u16),
    Tcp {
        sp: u16,
        dp: u16,
        seq: u32,
        win: u16,
        flags: u16,
        ack: u32,
        urg: u16,
        options_raw: Vec<u8>,
        elements: bool,
    },
    TcpHeader(Box<TcpHeader>),
    Icmp4(Icmpv4Type),
    Icmp4Raw(u8, u8, [u8; 4]),
    Icmp4EchoReq(u16, u16),
    Icmp4EchoRep(u16, u16),
    Icmp6(Icmpv6Type),
    Icmp6Raw(u8, u8, [u8; 4]),
    Icmp6EchoReq(u16, u16),
    Icmp6EchoRep(u16, u16),
    Raw(u8),
    /// ARP packets have no transport part
    None,
}

#[derive(Clone, Debug)]
pub struct BSpec {
    pub link: LinkSpec,
    pub vlan: VlanSpec,
    pub net: NetSpec,
    pub transport: TSpec,
    pub payload: Vec<u8>,
}

pub enum Fin {
    Udp(PacketBuilderStep<UdpHeader>),
    Tcp(PacketBuilderStep<TcpHeader>),
    I4(PacketBuilderStep<Icmpv4Header>),
    I6(PacketBuilderStep<Icmpv6Header>),
    Raw(PacketBuilderStep<IpHeaders>, IpNumber),
    Arp(PacketBuilderStep<ArpPacket>),
}

impl Fin {
    pub fn step_name(&self) -> &'static str {
        match self {
            Fin::Udp(_) => "udp",
            Fin::Tcp(_) => "tcp",
            Fin::I4(_) => "icmpv4",
            Fin::I6(_) => "icmpv6",
            Fin::Raw(..) => "ip_raw",
            Fin::Arp(_) => "arp",
        }
    }
    pub fn size(&self, n: usize) -> usize {
        match self {
            Fin::Udp(b) => b.size(n),
            Fin::Tcp(b) => b.size(n),
            Fin::I4(b) => b.size(n),
            Fin::I6(b) => b.size(n),
            Fin::Raw(b, _) => b.size(n),
            Fin::Arp(b) => b.size(),
        }
    }
    pub fn write<W: Write>(self, w: &mut W, p: &[u8]) -> Result<(), BuildWriteError> {
        match self {
            Fin::Udp(b) => b.write(w, p),
            Fin::Tcp(b) => b.write(w, p),
            Fin::I4(b) => b.write(w, p),
            Fin::I6(b) => b.write(w, p),
            Fin::Raw(b, n) => b.write(w, n, p),
            Fin::Arp(b) => b.write(w),
        }
    }
    pub fn write_to_vec(self, v: &mut Vec<u8>, p: &[u8]) -> Result<(), BuildVecWriteError> {
        match self {
            Fin::Udp(b) => b.write_to_vec(v, p),
            Fin::Tcp(b) => b.write_to_vec(v, p),
            Fin::I4(b) => b.write_to_vec(v, p),
            Fin::I6(b) => b.write_to_vec(v, p),
            Fin::Raw(b, n) => b.write_to_vec(v, n, p),
            Fin::Arp(b) => b.write_to_vec(v),
        }
    }
    pub fn write_to_slice(self, s: &mut [u8], p: &[u8]) -> Result<usize, BuildSliceWriteError> {
        match self {
            Fin::Udp(b) => b.write_to_slice(s, p),
            Fin::Tcp(b) => b.write_to_slice(s, p),
            Fin::I4(b) => b.write_to_slice(s, p),
            Fin::I6(b) => b.write_to_slice(s, p),
            Fin::Raw(b, n) => b.write_to_slice(s, n, p),
            Fin::Arp(b) => b.write_to_slice(s),
        }
    }
}

enum Mid {
    Ip(PacketBuilderStep<IpHeaders>),
    Arp(PacketBuilderStep<ArpPacket>),
}

macro_rules! net_on {
    ($b:expr, $net:expr) => {
        match $net {
            NetSpec::V4(s, d, t) => Mid::Ip($b.ipv4(*s, *d, *t)),
            NetSpec::V6(s, d, t) => Mid::Ip($b.ipv6(*s, *d, *t)),
            NetSpec::Ip(h) => Mid::Ip($b.ip((**h).clone())),
            NetSpec::Arp(a) => Mid::Arp($b.arp((**a).clone())),
        }
    };
}

impl BSpec {
    /// Builds the crate's builder for this spec (fresh every time).
    pub fn build(&self) -> Fin {
        let vid = |v: u16| VlanId::try_new(v & 0xfff).unwrap();
        let mid = match &self.link {
            LinkSpec::None => match &self.net {
                NetSpec::V4(s, d, t) => Mid::Ip(PacketBuilder::ipv4(*s, *d, *t)),
                NetSpec::V6(s, d, t) => Mid::Ip(PacketBuilder::ipv6(*s, *d, *t)),
                NetSpec::Ip(h) => Mid::Ip(PacketBuilder::ip((**h).clone())),
                NetSpec::Arp(_) => panic!("harness: arp without link layer"),
            },
            LinkSpec::Eth(s, d) => {
                let b = PacketBuilder::ethernet2(*s, *d);
                match &self.vlan {
                    VlanSpec::None => net_on!(b, &self.net),
                    VlanSpec::Single(v) => net_on!(b.single_vlan(vid(*v)), &self.net),
                    VlanSpec::Double(o, i) => net_on!(b.double_vlan(vid(*o), vid(*i)), &self.net),
                    VlanSpec::Header(h) => net_on!(b.vlan(h.clone()), &self.net),
                }
            }
            LinkSpec::Sll(pt, vl, addr) => {
                let b = PacketBuilder::linux_sll(
                    LinuxSllPacketType::try_from(*pt % 8).unwrap(),
                    *vl,
                    *addr,
                );
                net_on!(b, &self.net)
            }
        };
        match mid {
            Mid::Arp(b) => Fin::Arp(b),
            Mid::Ip(b) => match &self.transport {
                TSpec::Udp(s, d) => Fin::Udp(b.udp(*s, *d)),
                TSpec::Tcp {
                    sp,
                    dp,
                    seq,
                    win,
                    flags,
                    ack,
                    urg,
                    options_raw,
                    elements,
                } => {
                    let mut t = b.tcp(*sp, *dp, *seq, *win);
                    if flags & 1 != 0 {
                        t = t.ns();
                    }
                    if flags & 2 != 0 {
                        t = t.fin();
                    }
                    if flags & 4 != 0 {
                        t = t.syn();
                    }
                    if flags & 8 != 0 {
                        t = t.rst();
                    }
                    if flags & 16 != 0 {
                        t = t.psh();
                    }
                    if flags & 32 != 0 {
                        t = t.ack(*ack);
                    }
                    if flags & 64 != 0 {
                        t = t.urg(*urg);
                    }
                    if flags & 128 != 0 {
                        t = t.ece();
                    }
                    if flags & 256 != 0 {
                        t = t.cwr();
                    }
                    if *elements {
                        use TcpOptionElement::*;
                        t = t
                            .options(&[
                                MaximumSegmentSize(*win),
                                Noop,
                                WindowScale((*urg & 0xf) as u8),
                                SelectiveAcknowledgementPermitted,
                                Timestamp(*seq, *ack),
                            ])
                            .unwrap();
                    } else {
                        t = t.options_raw(options_raw).unwrap();
                    }
                    Fin::Tcp(t)
                }
                TSpec::TcpHeader(h) => Fin::Tcp(b.tcp_header((**h).clone())),
                TSpec::Icmp4(t) => Fin::I4(b.icmpv4(t.clone())),
                TSpec::Icmp4Raw(t, c, r) => Fin::I4(b.icmpv4_raw(*t, *c, *r)),
                TSpec::Icmp4EchoReq(i, s) => Fin::I4(b.icmpv4_echo_request(*i, *s)),
                TSpec::Icmp4EchoRep(i, s) => Fin::I4(b.icmpv4_echo_reply(*i, *s)),
                TSpec::Icmp6(t) => Fin::I6(b.icmpv6(t.clone())),
                TSpec::Icmp6Raw(t, c, r) => Fin::I6(b.icmpv6_raw(*t, *c, *r)),
                TSpec::Icmp6EchoReq(i, s) => Fin::I6(b.icmpv6_echo_request(*i, *s)),
                TSpec::Icmp6EchoRep(i, s) => Fin::I6(b.icmpv6_echo_reply(*i, *s)),
                TSpec::Raw(n) => Fin::Raw(b, IpNumber(*n)),
                TSpec::None => panic!("harness: ip without transport spec"),
            },
        }
    }

    pub fn describe(&self) -> String {
        let link = match self.link {
            LinkSpec::None => "none",
            LinkSpec::Eth(..) => "ethernet2",
            LinkSpec::Sll(..) => "linux_sll",
        };
        let vlan = match self.vlan {
            VlanSpec::None => "none",
            VlanSpec::Single(_) => "single",
            VlanSpec::Double(..) => "double",
            VlanSpec::Header(VlanHeader::Single(_)) => "hdr-single",
            VlanSpec::Header(VlanHeader::Double(_)) => "hdr-double",
        };
        let net = match &self.net {
            NetSpec::V4(..) => "ipv4".to_string(),
            NetSpec::V6(..) => "ipv6".to_string(),
            NetSpec::Ip(h) => match &**h {
                IpHeaders::Ipv4(_, e) => format!("ip(v4,auth={})", e.auth.is_some()),
                IpHeaders::Ipv6(_, e) => format!(
                    "ip(v6,exts={}{}{}{}{}{})",
                    e.hop_by_hop_options.is_some() as u8,
                    e.destination_options.is_some() as u8,
                    e.routing.is_some() as u8,
                    e.routing
                        .as_ref()
                        .map(|r| r.final_destination_options.is_some())
                        .unwrap_or(false) as u8,
                    e.fragment.is_some() as u8,
                    e.auth.is_some() as u8
                ),
            },
            NetSpec::Arp(_) => "arp".to_string(),
        };
        let t = match &self.transport {
            TSpec::Udp(..) => "udp",
            TSpec::Tcp { .. } => "tcp",
            TSpec::TcpHeader(_) => "tcp_header",
            TSpec::Icmp4(_) => "icmpv4",
            TSpec::Icmp4Raw(..) => "icmpv4_raw",
            TSpec::Icmp4EchoReq(..) => "icmpv4_echo_request",
            TSpec::Icmp4EchoRep(..) => "icmpv4_echo_reply",
            TSpec::Icmp6(_) => "icmpv6",
            TSpec::Icmp6Raw(..) => "icmpv6_raw",
            TSpec::Icmp6EchoReq(..) => "icmpv6_echo_request",
            TSpec::Icmp6EchoRep(..) => "icmpv6_echo_reply",
            TSpec::Raw(_) => "raw",
            TSpec::None => "-",
        };
        format!("{link}/{vlan}/{net}/{t}/payload={}", self.payload.len())
    }
}

/// Generates a builder configuration. `size` scales variable parts.
pub fn gen_bspec(r: &mut Rng, size: u32) -> BSpec {
    let link = match r.below(3) {
        0 => LinkSpec::None,
        1 => LinkSpec::Eth(r.array(), r.array()),
        _ => LinkSpec::Sll(r.below(8) as u16, r.u16(), r.array()),
    };
    let vlan = if matches!(link, LinkSpec::Eth(..)) {
        match r.below(5) {
            0 | 1 => VlanSpec::None,
            2 => VlanSpec::Single(r.u16() & 0xfff),
            3 => VlanSpec::Double(r.u16() & 0xfff, r.u16() & 0xfff),
            _ => VlanSpec::Header(if r.bool() {
                VlanHeader::Single(gen_vlan(r))
            } else {
                VlanHeader::Double(DoubleVlanHeader {
                    outer: gen_vlan(r),
                    inner: gen_vlan(r),
                })
            }),
        }
    } else {
        VlanSpec::None
    };
    let arp_ok = !matches!(link, LinkSpec::None);
    let net = match r.below(if arp_ok { 7 } else { 6 }) {
        0 | 1 => NetSpec::V4(r.array(), r.array(), r.u8()),
        2 | 3 => NetSpec::V6(r.array(), r.array(), r.u8()),
        4 | 5 => NetSpec::Ip(Box::new(gen_ip_headers(r, size.min(2)))),
        _ => NetSpec::Arp(Box::new(gen_arp(r, size))),
    };
    if let NetSpec::Arp(_) = net {
        return BSpec {
            link,
            vlan,
            net,
            transport: TSpec::None,
            payload: Vec::new(),
        };
    }
    let is_v4 = match &net {
        NetSpec::V4(..) => true,
        NetSpec::Ip(h) => matches!(**h, IpHeaders::Ipv4(..)),
        _ => false,
    };
    let transport = match r.below(12) {
        0 | 1 => TSpec::Udp(r.u16(), r.u16()),
        2 => {
            let n = var_len_pub(r, size, 40);
            TSpec::Tcp {
                sp: r.u16(),
                dp: r.u16(),
                seq: r.u32(),
                win: r.u16(),
                flags: r.u16(),
                ack: r.u32(),
                urg: r.u16(),
                options_raw: r.bytes(n),
                elements: r.chance(1, 4),
            }
        }
        3 => TSpec::TcpHeader(Box::new(gen_tcp(r, size))),
        4 => TSpec::Icmp4(gen_icmp4(r).icmp_type),
        5 => TSpec::Icmp4Raw(r.u8(), r.u8(), r.array()),
        6 => {
            if r.bool() {
                TSpec::Icmp4EchoReq(r.u16(), r.u16())
            } else {
                TSpec::Icmp4EchoRep(r.u16(), r.u16())
            }
        }
        // ICMPv6 in IPv4 is a documented configuration error: keep it out of
        // the I/O fault workload
        7 if !is_v4 => TSpec::Icmp6(gen_icmp6(r).icmp_type),
        8 if !is_v4 => TSpec::Icmp6Raw(r.u8(), r.u8(), r.array()),
        9 if !is_v4 => {
            if r.bool() {
                TSpec::Icmp6EchoReq(r.u16(), r.u16())
            } else {
                TSpec::Icmp6EchoRep(r.u16(), r.u16())
            }
        }
        7 | 8 | 9 => TSpec::Udp(r.u16(), r.u16()),
        _ => TSpec::Raw(gen_ip_number_non_ext(r).0),
    };
    let plen = match size {
        0 => r.usize_range(0, 4),
        1 => r.usize_range(0, 64),
        2 => r.usize_range(0, 600),
        _ => match r.below(8) {
            0 => r.usize_range(1400, 1500),
            1 => r.usize_range(8000, 9000),
            _ => r.usize_range(0, 1500),
        },
    };
    let mut spec = BSpec {
        link,
        vlan,
        net,
        transport,
        payload: Vec::new(),
    };
    let plen = if size >= 4 {
        // the largest payload this stacking can still encode (binary search
        // with a counting sink), or 1..2 bytes less
        struct Count(usize);
        impl Write for Count {
            fn write(&mut self, b: &[u8]) -> std::io::Result<usize> {
                self.0 += b.len();
                Ok(b.len())
            }
            fn flush(&mut self) -> std::io::Result<()> {
                Ok(())
            }
        }
        let zeros = vec![0u8; 65_536];
        // a panic of the builder on an unencodable size (which would be a
        // C10 matter) must not take the harness down: it counts as "no fit"
        let fits = |spec: &BSpec, n: usize| {
            let prev = crate::runner::set_guarded(true);
            let r = std::panic::catch_unwind(std::panic::AssertUnwindSafe(|| {
                spec.build().write(&mut Count(0), &zeros[..n]).is_ok()
            }));
            crate::runner::set_guarded(prev);
            r.unwrap_or(false)
        };
        let (mut lo, mut hi) = (0usize, 65_536usize);
        if fits(&spec, 0) {
            while lo + 1 < hi {
                let mid = (lo + hi) / 2;
                if fits(&spec, mid) {
                    lo = mid;
                } else {
                    hi = mid;
                }
            }
        }
        lo.saturating_sub(r.usize_range(0, 2))
    } else {
        plen
    };
    spec.payload = r.bytes(plen);
    spec
}

fn var_len_pub(r: &mut Rng, size: u32, max: usize) -> usize {
    match size {
        0 => 0,
        1 => r.usize_range(0, max.min(4)),
        _ => r.edgy(0, max as u64) as usize,
    }
}
