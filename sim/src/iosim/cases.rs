//! Self-contained, replayable iosim cases and their oracles.
//!
//! Every case carries everything needed to re-execute it (value seeds,
//! stream bytes, fault plan). `Case::check` recomputes the fault-free
//! reference itself, so replaying a case is a pure function of the case and
//! the code under test.

use super::builder::*;
use super::media::*;
use super::readers::*;
use super::values::*;
use crate::json::{hex, unhex, J};
use crate::prng::Rng;
use etherparse::err::LenError;
use etherparse::io::LimitedReader;
use etherparse::LenSource;
use std::cell::RefCell;
use std::io::{ErrorKind, Read};
use std::rc::Rc;

/// (violation class, human readable detail)
pub type Fail = (String, String);

fn fail<T>(class: &str, detail: String) -> Result<T, Fail> {
    Err((class.to_string(), detail))
}

#[derive(Clone, Debug)]
pub enum LOp {
    Read(usize),
    Layer,
}

#[derive(Clone, Debug)]
pub enum Sink {
    Io(WriterPlan),
    Vec,
    Slice(usize),
}

#[derive(Clone, Debug)]
pub enum Case {
    /// header `write` through a SimWriter
    Write {
        kind: WKind,
        vseed: u64,
        size: u32,
        plan: WriterPlan,
    },
    /// header `write_to_slice` into a region of `len` bytes
    WriteSlice {
        kind: WKind,
        vseed: u64,
        size: u32,
        len: usize,
    },
    /// PacketBuilder into one of its three sinks
    Build { bseed: u64, size: u32, sink: Sink },
    /// reader-based decoder under a fault plan (C16)
    Read {
        op: ROp,
        stream: Vec<u8>,
        plan: ReaderPlan,
    },
    /// the stream ends (naturally) inside the header: the operation must not
    /// succeed (C16: end of stream at every byte of the header)
    Cut {
        op: ROp,
        stream: Vec<u8>,
        cut: usize,
    },
    /// LimitedReader operation sequence (C16)
    Limited {
        data_len: usize,
        limit: usize,
        ops: Vec<LOp>,
        plan: ReaderPlan,
    },
    /// reader vs slice twin (C06)
    Cmp {
        op: ROp,
        stream: Vec<u8>,
        slice_len: usize,
        chunking: Chunking,
        /// the stream before it was cut short (resp. before the limit cuts
        /// it): a content error the reader reports on the short input must
        /// be the content error of these bytes
        full: Option<Vec<u8>>,
    },
    /// reader on a damaged medium, result fully touched (C01)
    Mem {
        op: ROp,
        stream: Vec<u8>,
        plan: ReaderPlan,
    },
}

pub fn value_of(kind: WKind, vseed: u64, size: u32) -> Value {
    gen_value(kind, &mut Rng::new(vseed), size)
}

pub fn bspec_of(bseed: u64, size: u32) -> BSpec {
    gen_bspec(&mut Rng::new(bseed), size)
}

pub fn limited_data(len: usize) -> Vec<u8> {
    (0..len).map(|i| (i as u8).wrapping_mul(37) ^ 0x6b).collect()
}

// ---------------------------------------------------------------- writers

pub struct WRef {
    /// the complete encoding
    pub e: Vec<u8>,
    /// cumulative accepted length after each write call of the clean,
    /// whole-transfer run: the boundaries of the operation's parts
    pub bounds: Vec<usize>,
}

/// Clean run with whole transfers: the complete encoding.
pub fn write_reference(kind: WKind, v: &Value) -> Result<Option<WRef>, Fail> {
    let mut w = BoundsWriter::default();
    match write_value(kind, v, &mut w) {
        Ok(()) => Ok(Some(WRef {
            e: w.data,
            bounds: w.bounds,
        })),
        Err(WErr::Content(_)) => Ok(None),
        Err(WErr::Io(e)) => fail(
            "clean-write-failed",
            format!("{} failed on a fault-free writer: {e:?}", kind.name()),
        ),
    }
}

#[derive(Default)]
pub struct BoundsWriter {
    pub data: Vec<u8>,
    pub bounds: Vec<usize>,
}

impl std::io::Write for BoundsWriter {
    fn write(&mut self, buf: &[u8]) -> std::io::Result<usize> {
        self.data.extend_from_slice(buf);
        self.bounds.push(self.data.len());
        Ok(buf.len())
    }
    fn flush(&mut self) -> std::io::Result<()> {
        Ok(())
    }
}

pub struct WObs {
    pub fault_fired: bool,
    pub exact_k: bool,
    pub eintrs: usize,
    pub calls_after_fault: usize,
}

fn judge_write(
    what: &str,
    res: Result<(), WErr>,
    w: &SimWriter,
    e: &[u8],
    plan: &WriterPlan,
) -> Result<WObs, Fail> {
    let obs = WObs {
        fault_fired: w.fault_fired,
        exact_k: matches!(plan.fault, Some((k, _)) if w.accepted.len() == k),
        eintrs: w.eintrs,
        calls_after_fault: w.calls_after_fault,
    };
    if !e.starts_with(&w.accepted) {
        let at = w
            .accepted
            .iter()
            .zip(e.iter())
            .position(|(a, b)| a != b)
            .unwrap_or(e.len().min(w.accepted.len()));
        return fail(
            "written-not-prefix",
            format!(
                "{what}: {} bytes reached the writer and are not a prefix of the {}-byte complete encoding (first difference at byte {at})",
                w.accepted.len(),
                e.len()
            ),
        );
    }
    match plan.fault {
        Some((k, f)) if k < e.len() => {
            match res {
                Ok(()) => fail(
                    "fault-reported-as-success",
                    format!("{what}: writer failed ({}) at byte {k} of {} but the operation returned Ok", f.name(), e.len()),
                ),
                Err(WErr::Content(c)) => fail(
                    "fault-masked-by-other-error",
                    format!("{what}: writer failed at byte {k} but the operation returned {c}"),
                ),
                Err(WErr::Io(err)) => {
                    let ok = match f {
                        HardFault::Error => token_of(&err) == Some(plan.token),
                        HardFault::Zero => err.kind() == ErrorKind::WriteZero,
                    };
                    if ok {
                        Ok(obs)
                    } else {
                        fail(
                            "wrong-io-error",
                            format!("{what}: writer failed ({}) at byte {k} with token {} but the operation returned {err:?}", f.name(), plan.token),
                        )
                    }
                }
            }
        }
        _ => match res {
            Ok(()) if w.accepted == e => Ok(obs),
            Ok(()) => fail(
                "short-write-reported-as-success",
                format!("{what}: returned Ok but only {} of {} bytes were written", w.accepted.len(), e.len()),
            ),
            Err(err) => fail(
                "benign-transfer-failed",
                format!("{what}: no hard fault before the end of the encoding, yet the operation failed: {err:?}"),
            ),
        },
    }
}

pub fn check_write(kind: WKind, v: &Value, r: &WRef, plan: &WriterPlan) -> Result<WObs, Fail> {
    let mut w = SimWriter::new(plan.clone());
    let res = write_value(kind, v, &mut w);
    judge_write(kind.name(), res, &w, &r.e, plan)
}

pub struct SObs {
    pub prefix_len: usize,
}

fn judge_slice(
    what: &str,
    s: &SimSlice,
    e: &[u8],
    len: usize,
    ok_len: Option<usize>,
    err_required: Option<usize>,
) -> Result<SObs, Fail> {
    if !s.guards_intact() {
        return fail(
            "wrote-outside-slice",
            format!("{what}: bytes outside the {len}-byte output slice were modified"),
        );
    }
    let m = match s.written_prefix(e) {
        Ok(m) => m,
        Err(at) => {
            return fail(
                "slice-garbage",
                format!("{what}: byte {at} of the {len}-byte output slice is neither untouched nor part of a prefix of the complete encoding"),
            )
        }
    };
    if len < e.len() {
        match err_required {
            Some(req) if req == e.len() => Ok(SObs { prefix_len: m }),
            Some(req) => fail(
                "wrong-required-len",
                format!("{what}: slice of {len} bytes, complete encoding needs {}, error states {req}", e.len()),
            ),
            None => fail(
                "short-slice-reported-as-success",
                format!("{what}: slice of {len} bytes is too short for {} bytes but no space error was returned", e.len()),
            ),
        }
    } else {
        match ok_len {
            Some(n) if n == e.len() && m >= e.len() => Ok(SObs { prefix_len: m }),
            Some(n) => fail(
                "slice-result-wrong",
                format!("{what}: slice of {len} bytes suffices for {}; reported {n} bytes written, {m} bytes match", e.len()),
            ),
            None => fail(
                "sufficient-slice-rejected",
                format!("{what}: slice of {len} bytes suffices for {} but an error was returned", e.len()),
            ),
        }
    }
}

pub fn check_write_slice(kind: WKind, v: &Value, r: &WRef, len: usize) -> Result<SObs, Fail> {
    let mut s = SimSlice::new(len, &r.e);
    let (ok_len, err_req) = {
        let region = s.region_mut();
        let res = match v {
            Value::Eth(h) => h.write_to_slice(region).map(|rest| rest.len()),
            Value::Sll(h) => h.write_to_slice(region).map(|rest| rest.len()),
            _ => panic!("harness: write_to_slice for {kind:?}"),
        };
        match res {
            Ok(rest_len) => (Some(len - rest_len), None),
            Err(e) => (None, Some(e.required_len)),
        }
    };
    judge_slice(kind.name(), &s, &r.e, len, ok_len, err_req)
}

// ---------------------------------------------------------------- builder

pub fn build_reference(spec: &BSpec) -> Result<Option<WRef>, Fail> {
    use etherparse::err::packet::BuildWriteError as E;
    let mut w = BoundsWriter::default();
    match spec.build().write(&mut w, &spec.payload) {
        Ok(()) => Ok(Some(WRef {
            e: w.data,
            bounds: w.bounds,
        })),
        Err(E::Io(e)) => fail(
            "clean-write-failed",
            format!("builder {} failed on a fault-free writer: {e:?}", spec.describe()),
        ),
        Err(_) => Ok(None),
    }
}

pub enum BObs {
    W(WObs),
    S(SObs),
    V,
}

pub fn check_build(spec: &BSpec, r: &WRef, sink: &Sink) -> Result<BObs, Fail> {
    let what = format!("builder[{}]", spec.describe());
    match sink {
        Sink::Io(plan) => {
            use etherparse::err::packet::BuildWriteError as E;
            let mut w = SimWriter::new(plan.clone());
            let res = spec
                .build()
                .write(&mut w, &spec.payload)
                .map_err(|e| match e {
                    E::Io(e) => WErr::Io(e),
                    other => WErr::Content(format!("{other:?}")),
                });
            judge_write(&what, res, &w, &r.e, plan).map(BObs::W)
        }
        Sink::Vec => {
            let marker = [0xC3u8, 0x3C, 0x99];
            let mut v = marker.to_vec();
            match spec.build().write_to_vec(&mut v, &spec.payload) {
                Ok(()) => {
                    if v[..3] == marker && v[3..] == r.e[..] {
                        Ok(BObs::V)
                    } else {
                        fail(
                            "vec-sink-differs",
                            format!("{what}: write_to_vec produced bytes that differ from the complete encoding"),
                        )
                    }
                }
                Err(e) => fail(
                    "vec-sink-failed",
                    format!("{what}: write succeeded but write_to_vec failed: {e:?}"),
                ),
            }
        }
        Sink::Slice(len) => {
            use etherparse::err::packet::BuildSliceWriteError as E;
            let mut s = SimSlice::new(*len, &r.e);
            let (ok_len, err_req) = match spec.build().write_to_slice(s.region_mut(), &spec.payload)
            {
                Ok(n) => (Some(n), None),
                Err(E::Space(req)) => (None, Some(req)),
                Err(other) => {
                    return fail(
                        "slice-sink-other-error",
                        format!("{what}: write succeeded but write_to_slice({len}) returned {other:?}"),
                    )
                }
            };
            judge_slice(&what, &s, &r.e, *len, ok_len, err_req).map(BObs::S)
        }
    }
}

// ---------------------------------------------------------------- readers

pub struct RRun {
    pub out: ROut,
    pub calls: Vec<(CallKind, u64)>,
    pub pos: u64,
    pub delivered: u64,
    pub fault_fired: bool,
    pub calls_after_fault: usize,
    pub eintrs: usize,
}

pub fn run_read(op: &ROp, stream: &[u8], plan: &ReaderPlan) -> RRun {
    let (first, body) = if op.kind.first_byte_is_param() {
        (stream[0], &stream[1..])
    } else {
        (0, stream)
    };
    let mut r = SimReader::new(body, plan.clone());
    let out = run_reader(op, first, &mut r);
    RRun {
        out,
        pos: r.position(),
        delivered: r.delivered,
        fault_fired: r.fault_fired,
        calls_after_fault: r.calls_after_fault,
        eintrs: r.eintrs,
        calls: r.calls,
    }
}

/// Comparable summary of a reader result.
pub fn summary(o: &ROut) -> String {
    match o {
        ROut::Ok(v) => format!("Ok({v:?})"),
        ROut::Io(e) => format!("Io({:?},{:?})", e.kind(), token_of(e)),
        ROut::Len(e) => format!("Len({e:?})"),
        ROut::Content(c) => format!("Content({c})"),
    }
}

pub struct RObs {
    pub fault_fired: bool,
    pub calls_after_fault: usize,
    pub n_calls: usize,
    pub eintrs: usize,
}

/// Upper bound on the bytes `IpHeaders::read` may pull for this stream:
/// max(header length, announced packet length).
fn ip_read_budget(stream: &[u8]) -> Option<u64> {
    let b0 = *stream.first()?;
    match b0 >> 4 {
        4 => {
            if stream.len() < 4 {
                return None;
            }
            let hl = u64::from(b0 & 0xf) * 4;
            let total = u64::from(u16::from_be_bytes([stream[2], stream[3]]));
            Some(hl.max(total).max(20))
        }
        6 => {
            if stream.len() < 6 {
                return None;
            }
            Some(40 + u64::from(u16::from_be_bytes([stream[4], stream[5]])))
        }
        _ => Some(1),
    }
}

pub fn check_read(op: &ROp, stream: &[u8], plan: &ReaderPlan) -> Result<RObs, Fail> {
    let what = op.kind.name();
    let mut clean = plan.clone();
    clean.fault = None;
    let reference = run_read(op, stream, &clean);
    // the length-limited readers never pull more than their limit
    let budget_check = |run: &RRun| -> Result<(), Fail> {
        if op.kind.is_limited() && run.delivered > op.limit as u64 {
            return fail(
                "limit-exceeded",
                format!("{what}: limit {} but {} bytes were pulled from the underlying reader", op.limit, run.delivered),
            );
        }
        if op.kind == RKind::Ip {
            if let Some(b) = ip_read_budget(stream) {
                if run.delivered > b {
                    return fail(
                        "limit-exceeded",
                        format!("{what}: header and announced packet length allow {b} bytes but {} were pulled from the reader", run.delivered),
                    );
                }
            }
        }
        Ok(())
    };
    budget_check(&reference)?;
    let Some((j, f)) = plan.fault else {
        // benign plan: identical to the whole-transfer run
        let whole = run_read(op, stream, &ReaderPlan::clean(Chunking::Whole));
        if summary(&whole.out) != summary(&reference.out) || whole.pos != reference.pos {
            return fail(
                "benign-transfer-changes-result",
                format!(
                    "{what}: short reads / EINTR changed the result: whole={} (pos {}), chunked={} (pos {})",
                    summary(&whole.out),
                    whole.pos,
                    summary(&reference.out),
                    reference.pos
                ),
            );
        }
        return Ok(RObs {
            fault_fired: false,
            calls_after_fault: 0,
            n_calls: reference.calls.len(),
            eintrs: reference.eintrs,
        });
    };
    let run = run_read(op, stream, plan);
    budget_check(&run)?;
    let obs = RObs {
        fault_fired: run.fault_fired,
        calls_after_fault: run.calls_after_fault,
        n_calls: reference.calls.len(),
        eintrs: run.eintrs,
    };
    if j >= reference.calls.len() {
        // the fault lies behind the last call of the operation
        if summary(&run.out) != summary(&reference.out) {
            return fail(
                "fault-behind-end-changes-result",
                format!("{what}: fault at call {j} lies behind the {} calls of the operation, yet the result changed", reference.calls.len()),
            );
        }
        return Ok(obs);
    }
    match f {
        HardFault::Error => match &run.out {
            ROut::Io(e) if token_of(e) == Some(plan.token) => Ok(obs),
            // A `seek` answered once with kind `Interrupted` (media.rs) may
            // legitimately be retried: the retry succeeds (the fault is
            // one-shot), so the operation must then behave exactly like the
            // fault-free run. Anything else is still a violation.
            _ if plan.token % 3 == 0
                && reference.calls[j].0 == CallKind::Seek
                && summary(&run.out) == summary(&reference.out)
                && run.pos == reference.pos
                && run.delivered == reference.delivered =>
            {
                Ok(obs)
            }
            ROut::Ok(_) => fail(
                "fault-reported-as-success",
                format!("{what}: call {j} of the reader failed with token {} but the operation returned Ok", plan.token),
            ),
            other => fail(
                "wrong-io-error",
                format!("{what}: call {j} of the reader failed with token {} but the operation returned {}", plan.token, summary(other)),
            ),
        },
        HardFault::Zero => {
            let read_follows = reference.calls[j..]
                .iter()
                .any(|(k, _)| *k == CallKind::Read);
            if !read_follows {
                return Ok(obs);
            }
            match &run.out {
                ROut::Io(e) if e.kind() == ErrorKind::UnexpectedEof => Ok(obs),
                ROut::Ok(_) => fail(
                    "fault-reported-as-success",
                    format!("{what}: stream ended at call {j} but the operation returned Ok"),
                ),
                other => fail(
                    "wrong-io-error",
                    format!("{what}: stream ended at call {j} but the operation returned {}", summary(other)),
                ),
            }
        }
    }
}

/// If the fault-free run on `stream` succeeds having consumed c bytes, the
/// run on the stream cut to `cut` < c bytes must not succeed: every consumed
/// byte has to exist (a `seek` over missing bytes is not an excuse).
/// Returns whether the rule applied.
pub fn check_cut(op: &ROp, stream: &[u8], cut: usize) -> Result<bool, Fail> {
    let what = op.kind.name();
    let skip = usize::from(op.kind.first_byte_is_param());
    if stream.len() < skip {
        return Ok(false);
    }
    let whole = run_read(op, stream, &ReaderPlan::clean(Chunking::Whole));
    let consumed = whole.pos as usize + skip;
    if !matches!(whole.out, ROut::Ok(_)) || cut >= consumed || cut < skip {
        return Ok(false);
    }
    let run = run_read(op, &stream[..cut], &ReaderPlan::clean(Chunking::Whole));
    match run.out {
        ROut::Ok(v) => fail(
            "truncated-stream-accepted",
            format!("{what}: the operation consumes {consumed} bytes of the intact stream, but on the stream cut to {cut} bytes it still returns Ok({v:?})"),
        ),
        _ => Ok(true),
    }
}

// ---------------------------------------------------------------- LimitedReader

struct Shared<'a>(Rc<RefCell<SimReader<'a>>>);

impl Read for Shared<'_> {
    fn read(&mut self, buf: &mut [u8]) -> std::io::Result<usize> {
        self.0.borrow_mut().read(buf)
    }
}

pub struct LObs {
    pub continued_after_error: usize,
    pub len_errors: usize,
    pub reads_ok: usize,
    pub io_errors: usize,
    pub layers: usize,
    pub fault_fired: bool,
}

pub fn check_limited(
    data_len: usize,
    limit: usize,
    ops: &[LOp],
    plan: &ReaderPlan,
) -> Result<LObs, Fail> {
    let data = limited_data(data_len);
    let inner = Rc::new(RefCell::new(SimReader::new(&data, plan.clone())));
    let mut lr = LimitedReader::new(
        Shared(inner.clone()),
        limit,
        LenSource::Slice,
        0,
        etherparse::err::Layer::Ipv6Header,
    );
    let mut obs = LObs {
        continued_after_error: 0,
        len_errors: 0,
        reads_ok: 0,
        io_errors: 0,
        layers: 0,
        fault_fired: false,
    };
    // model
    let mut max_len = limit;
    let mut read_len = 0usize;
    let mut pos = 0usize;
    let mut fault_accounted = false;
    for (i, op) in ops.iter().enumerate() {
        match op {
            LOp::Layer => {
                lr.start_layer(etherparse::err::Layer::Ipv6ExtHeader);
                max_len -= read_len;
                read_len = 0;
                obs.layers += 1;
            }
            LOp::Read(n) => {
                let calls_before = inner.borrow().calls.len();
                let mut buf = vec![0xEEu8; *n];
                let res = lr.read_exact(&mut buf);
                let calls_after = inner.borrow().calls.len();
                let delivered = inner.borrow().delivered;
                if delivered > limit as u64 {
                    return fail(
                        "limit-exceeded",
                        format!("LimitedReader(limit {limit}): after op {i} {delivered} bytes had been pulled from the underlying reader"),
                    );
                }
                use etherparse::err::io::LimitedReadError as E;
                if max_len - read_len < *n {
                    match res {
                        Err(E::Len(_)) if calls_after == calls_before => obs.len_errors += 1,
                        Err(E::Len(_)) => {
                            return fail(
                                "over-budget-read-touched-reader",
                                format!("LimitedReader(limit {limit}): op {i} asked for {n} bytes with {} left and was refused, but the underlying reader was called", max_len - read_len),
                            )
                        }
                        other => {
                            return fail(
                                "over-budget-read-not-refused",
                                format!("LimitedReader(limit {limit}): op {i} asked for {n} bytes with {} left, result {:?}", max_len - read_len, other.map_err(|e| format!("{e:?}"))),
                            )
                        }
                    }
                } else {
                    match res {
                        Ok(()) => {
                            if buf[..] != data[pos..pos + n] {
                                return fail(
                                    "limited-read-wrong-data",
                                    format!("LimitedReader(limit {limit}): op {i} returned bytes that are not stream bytes {pos}..{}", pos + n),
                                );
                            }
                            pos += n;
                            read_len += n;
                            obs.reads_ok += 1;
                        }
                        Err(E::Io(_)) => {
                            obs.io_errors += 1;
                            let fired = inner.borrow().fault_fired;
                            let natural_eof = pos + n > data.len();
                            if (!fired || fault_accounted) && !natural_eof {
                                return fail(
                                    "benign-transfer-failed",
                                    format!("LimitedReader(limit {limit}): op {i} failed without a fault or end of stream"),
                                );
                            }
                            obs.fault_fired = fired;
                            // A one-shot error under whole transfers fails a
                            // call that transferred nothing: stream position
                            // and byte budget are intact, so the sequence - and
                            // the limit - continue to be checked. In every
                            // other case (end of stream, error after a partial
                            // transfer) position and budget are unspecified
                            // from here on (read_exact contract).
                            let intact = fired
                                && !natural_eof
                                && plan.chunking == Chunking::Whole
                                && matches!(plan.fault, Some((_, HardFault::Error)));
                            if intact {
                                fault_accounted = true;
                                obs.continued_after_error += 1;
                                continue;
                            }
                            return Ok(obs);
                        }
                        Err(E::Len(e)) => {
                            return fail(
                                "in-budget-read-refused",
                                format!("LimitedReader(limit {limit}): op {i} asked for {n} bytes with {} left and was refused: {e:?}", max_len - read_len),
                            )
                        }
                    }
                }
            }
        }
    }
    obs.fault_fired = inner.borrow().fault_fired;
    Ok(obs)
}

// ---------------------------------------------------------------- C06 compare

pub struct CObs {
    pub class: &'static str,
    pub len_fields_equal: Option<bool>,
}

fn len_same_reason(a: &LenError, b: &LenError) -> bool {
    a.layer == b.layer && a.len_source == b.len_source
}

pub fn check_cmp(
    op: &ROp,
    stream: &[u8],
    slice_len: usize,
    chunking: Chunking,
    full: Option<&[u8]>,
) -> Result<CObs, Fail> {
    let what = op.kind.name();
    let run = run_read(op, stream, &ReaderPlan::clean(chunking));
    let skip = usize::from(op.kind.first_byte_is_param());
    // rules that depend on the total slice length are compared on the slice
    // that ends with the bytes the reader consumed
    let slice_end = match (&run.out, op.kind) {
        (ROut::Ok(_), RKind::Icmp4 | RKind::Icmp6) => (run.pos as usize + skip).min(stream.len()),
        _ => slice_len.min(stream.len()),
    };
    let s = run_slice(op, &stream[..slice_end]);
    let obs = |class: &'static str| CObs {
        class,
        len_fields_equal: None,
    };
    match (&s, &run.out) {
        (_, ROut::Io(e)) if e.kind() == ErrorKind::UnexpectedEof => match s {
            SOut::Ok(..) if op.kind != RKind::Icmp4 => fail(
                "slice-accepts-reader-eof",
                format!("{what}: from_slice accepts the {slice_end}-byte slice but the reader ran out of data after {} bytes", run.delivered),
            ),
            _ => Ok(obs("both-reject-truncated")),
        },
        (_, ROut::Io(e)) => fail(
            "reader-io-error",
            format!("{what}: reader over a fault-free stream returned {e:?}"),
        ),
        (SOut::Ok(v, c), ROut::Ok(v2)) => {
            if v != v2 {
                return fail(
                    "value-mismatch",
                    format!("{what}: from_slice -> {v:?}, read -> {v2:?}"),
                );
            }
            if run.pos as usize + skip != *c {
                return fail(
                    "consumed-mismatch",
                    format!("{what}: header occupies {c} bytes of the slice but the reader consumed {}", run.pos as usize + skip),
                );
            }
            Ok(obs("both-accept"))
        }
        (SOut::Ok(v, _), other) => fail(
            "slice-accepts-reader-rejects",
            format!("{what}: from_slice -> {v:?}, read -> {}", summary(other)),
        ),
        (SOut::Content(a), ROut::Content(b)) => {
            if a == b {
                Ok(obs("both-content"))
            } else {
                fail(
                    "content-error-mismatch",
                    format!("{what}: from_slice -> {a}, read -> {b}"),
                )
            }
        }
        (SOut::Len(a), ROut::Len(b)) => {
            if len_same_reason(a, b) {
                Ok(CObs {
                    class: "both-len",
                    len_fields_equal: Some(a == b),
                })
            } else {
                fail(
                    "len-error-mismatch",
                    format!("{what}: from_slice -> {a:?}, read -> {b:?}"),
                )
            }
        }
        // the slice decoder checks the minimum length first, the reader
        // validates bytes as they arrive: both reject a short input
        (SOut::Len(a), ROut::Content(b)) if a.len_source == LenSource::Slice => {
            // ... but the content error has to be real: decoding the uncut
            // bytes from a slice must report the same content error (or be
            // too short itself)
            if let Some(full) = full {
                match run_slice(op, full) {
                    SOut::Content(c) if &c == b => return Ok(obs("both-reject-order-confirmed")),
                    SOut::Len(l) if l.len_source == LenSource::Slice => {}
                    other => {
                        return fail(
                            "content-error-not-confirmed",
                            format!("{what}: the reader rejects the short input with {b}, but decoding the uncut {} bytes from a slice gives {other:?}", full.len()),
                        )
                    }
                }
            }
            Ok(obs("both-reject-order"))
        }
        (s, r) => fail(
            "verdict-mismatch",
            format!("{what}: from_slice -> {s:?}, read -> {}", summary(r)),
        ),
    }
}

// ---------------------------------------------------------------- C01 memory

pub fn check_mem(op: &ROp, stream: &[u8], plan: &ReaderPlan) -> Result<usize, Fail> {
    if plan.over_report.is_some() {
        // a reader that claims more bytes than fit violates the contract of
        // `Read` without being unsafe: a panic (std's read_exact indexes out
        // of range) is a fine answer, undefined behaviour is not
        let prev = crate::runner::set_guarded(true);
        let r = std::panic::catch_unwind(std::panic::AssertUnwindSafe(|| {
            let run = run_read(op, stream, plan);
            summary(&run.out).len()
        }));
        crate::runner::set_guarded(prev);
        return Ok(r.unwrap_or(0));
    }
    let run = run_read(op, stream, plan);
    // touch every byte the result exposes
    let rendered = summary(&run.out);
    Ok(rendered.len())
}

// ---------------------------------------------------------------- dispatch + (de)serialisation

impl Case {
    pub fn property(&self) -> &'static str {
        match self {
            Case::Cmp { .. } => "C06",
            Case::Mem { .. } => "C01",
            _ => "C16",
        }
    }

    /// Executes the case against the real code. Panics are caught by the caller.
    pub fn check(&self) -> Result<(), Fail> {
        match self {
            Case::Write {
                kind,
                vseed,
                size,
                plan,
            } => {
                let v = value_of(*kind, *vseed, *size);
                match write_reference(*kind, &v)? {
                    Some(r) => check_write(*kind, &v, &r, plan).map(|_| ()),
                    None => Ok(()),
                }
            }
            Case::WriteSlice {
                kind,
                vseed,
                size,
                len,
            } => {
                let v = value_of(*kind, *vseed, *size);
                match write_reference(*kind, &v)? {
                    Some(r) => check_write_slice(*kind, &v, &r, *len).map(|_| ()),
                    None => Ok(()),
                }
            }
            Case::Build { bseed, size, sink } => {
                let spec = bspec_of(*bseed, *size);
                match build_reference(&spec)? {
                    Some(r) => check_build(&spec, &r, sink).map(|_| ()),
                    None => Ok(()),
                }
            }
            Case::Read { op, stream, plan } => check_read(op, stream, plan).map(|_| ()),
            Case::Cut { op, stream, cut } => check_cut(op, stream, *cut).map(|_| ()),
            Case::Limited {
                data_len,
                limit,
                ops,
                plan,
            } => check_limited(*data_len, *limit, ops, plan).map(|_| ()),
            Case::Cmp {
                op,
                stream,
                slice_len,
                chunking,
                full,
            } => check_cmp(op, stream, *slice_len, *chunking, full.as_deref()).map(|_| ()),
            Case::Mem { op, stream, plan } => check_mem(op, stream, plan).map(|_| ()),
        }
    }

    pub fn to_json(&self) -> J {
        let base = J::obj().set("engine", J::s("iosim"));
        let wplan = |j: J, p: &WriterPlan| {
            let j = j.set("chunking", J::s(&p.chunking.name()));
            match p.fault {
                Some((k, f)) => j
                    .set("fault_at_byte", J::u(k as u64))
                    .set("fault", J::s(f.name()))
                    .set("token", J::u(p.token)),
                None => j,
            }
        };
        let rplan = |j: J, p: &ReaderPlan| {
            let j = j
                .set("chunking", J::s(&p.chunking.name()))
                .set("inspect", J::Bool(p.inspect));
            let j = match p.over_report {
                Some((c, by)) => j
                    .set("over_report_at_call", J::u(c as u64))
                    .set("over_report_by", J::u(by as u64)),
                None => j,
            };
            match p.fault {
                Some((k, f)) => j
                    .set("fault_at_call", J::u(k as u64))
                    .set("fault", J::s(f.name()))
                    .set("token", J::u(p.token)),
                None => j,
            }
        };
        let rop = |j: J, op: &ROp| {
            j.set("kind", J::s(op.kind.name()))
                .set("ip_number", J::u(u64::from(op.ip_number)))
                .set("limit", J::u(op.limit as u64))
        };
        match self {
            Case::Write {
                kind,
                vseed,
                size,
                plan,
            } => wplan(
                base.set("op", J::s("write"))
                    .set("kind", J::s(kind.name()))
                    .set("vseed", J::s(&vseed.to_string()))
                    .set("size", J::u(u64::from(*size))),
                plan,
            ),
            Case::WriteSlice {
                kind,
                vseed,
                size,
                len,
            } => base
                .set("op", J::s("write_to_slice"))
                .set("kind", J::s(kind.name()))
                .set("vseed", J::s(&vseed.to_string()))
                .set("size", J::u(u64::from(*size)))
                .set("len", J::u(*len as u64)),
            Case::Build { bseed, size, sink } => {
                let j = base
                    .set("op", J::s("build"))
                    .set("bseed", J::s(&bseed.to_string()))
                    .set("size", J::u(u64::from(*size)))
                    .set("config", J::s(&bspec_of(*bseed, *size).describe()));
                match sink {
                    Sink::Io(p) => wplan(j.set("sink", J::s("io")), p),
                    Sink::Vec => j.set("sink", J::s("vec")),
                    Sink::Slice(l) => j.set("sink", J::s("slice")).set("len", J::u(*l as u64)),
                }
            }
            Case::Read { op, stream, plan } => rplan(
                rop(base.set("op", J::s("read")), op).set("stream", J::s(&hex(stream))),
                plan,
            ),
            Case::Cut { op, stream, cut } => rop(base.set("op", J::s("cut")), op)
                .set("stream", J::s(&hex(stream)))
                .set("cut", J::u(*cut as u64)),
            Case::Limited {
                data_len,
                limit,
                ops,
                plan,
            } => {
                let mut a = J::arr();
                for o in ops {
                    a.push(match o {
                        LOp::Read(n) => J::u(*n as u64),
                        LOp::Layer => J::s("start_layer"),
                    });
                }
                rplan(
                    base.set("op", J::s("limited"))
                        .set("data_len", J::u(*data_len as u64))
                        .set("limit", J::u(*limit as u64))
                        .set("ops", a),
                    plan,
                )
            }
            Case::Cmp {
                op,
                stream,
                slice_len,
                chunking,
                full,
            } => {
                let j = rop(base.set("op", J::s("cmp")), op)
                    .set("stream", J::s(&hex(stream)))
                    .set("slice_len", J::u(*slice_len as u64))
                    .set("chunking", J::s(&chunking.name()));
                match full {
                    Some(f) => j.set("full", J::s(&hex(f))),
                    None => j,
                }
            }
            Case::Mem { op, stream, plan } => rplan(
                rop(base.set("op", J::s("mem")), op).set("stream", J::s(&hex(stream))),
                plan,
            ),
        }
    }

    pub fn from_json(j: &J) -> Result<Case, String> {
        let seed = |k: &str| -> Result<u64, String> {
            j.str_of(k)?.parse::<u64>().map_err(|e| format!("{k}: {e}"))
        };
        let wplan = || -> Result<WriterPlan, String> {
            Ok(WriterPlan {
                chunking: Chunking::parse(j.str_of("chunking")?)?,
                fault: match j.get("fault") {
                    Some(f) => Some((
                        j.u64_of("fault_at_byte")? as usize,
                        HardFault::parse(f.as_str().ok_or("fault")?)?,
                    )),
                    None => None,
                },
                token: j.get("token").and_then(|t| t.as_u64()).unwrap_or(0),
            })
        };
        let rplan = || -> Result<ReaderPlan, String> {
            Ok(ReaderPlan {
                chunking: Chunking::parse(j.str_of("chunking")?)?,
                fault: match j.get("fault") {
                    Some(f) => Some((
                        j.u64_of("fault_at_call")? as usize,
                        HardFault::parse(f.as_str().ok_or("fault")?)?,
                    )),
                    None => None,
                },
                token: j.get("token").and_then(|t| t.as_u64()).unwrap_or(0),
                inspect: j.get("inspect").and_then(|b| b.as_bool()).unwrap_or(false),
                over_report: match j.get("over_report_at_call") {
                    Some(c) => Some((
                        c.as_u64().ok_or("over_report_at_call")? as usize,
                        j.u64_of("over_report_by")? as usize,
                    )),
                    None => None,
                },
            })
        };
        let rop = || -> Result<ROp, String> {
            Ok(ROp {
                kind: RKind::parse(j.str_of("kind")?)?,
                ip_number: j.u64_of("ip_number")? as u8,
                limit: j.u64_of("limit")? as usize,
            })
        };
        let stream = || -> Result<Vec<u8>, String> { unhex(j.str_of("stream")?) };
        match j.str_of("op")? {
            "write" => Ok(Case::Write {
                kind: WKind::parse(j.str_of("kind")?)?,
                vseed: seed("vseed")?,
                size: j.u64_of("size")? as u32,
                plan: wplan()?,
            }),
            "write_to_slice" => Ok(Case::WriteSlice {
                kind: WKind::parse(j.str_of("kind")?)?,
                vseed: seed("vseed")?,
                size: j.u64_of("size")? as u32,
                len: j.u64_of("len")? as usize,
            }),
            "build" => Ok(Case::Build {
                bseed: seed("bseed")?,
                size: j.u64_of("size")? as u32,
                sink: match j.str_of("sink")? {
                    "io" => Sink::Io(wplan()?),
                    "vec" => Sink::Vec,
                    "slice" => Sink::Slice(j.u64_of("len")? as usize),
                    other => return Err(format!("bad sink {other}")),
                },
            }),
            "read" => Ok(Case::Read {
                op: rop()?,
                stream: stream()?,
                plan: rplan()?,
            }),
            "cut" => Ok(Case::Cut {
                op: rop()?,
                stream: stream()?,
                cut: j.u64_of("cut")? as usize,
            }),
            "limited" => {
                let mut ops = Vec::new();
                for o in j.arr_of("ops")? {
                    ops.push(match o {
                        J::Str(_) => LOp::Layer,
                        other => LOp::Read(other.as_u64().ok_or("bad op")? as usize),
                    });
                }
                Ok(Case::Limited {
                    data_len: j.u64_of("data_len")? as usize,
                    limit: j.u64_of("limit")? as usize,
                    ops,
                    plan: rplan()?,
                })
            }
            "cmp" => Ok(Case::Cmp {
                op: rop()?,
                stream: stream()?,
                slice_len: j.u64_of("slice_len")? as usize,
                chunking: Chunking::parse(j.str_of("chunking")?)?,
                full: match j.get("full") {
                    Some(f) => Some(unhex(f.as_str().ok_or("full")?)?),
                    None => None,
                },
            }),
            "mem" => Ok(Case::Mem {
                op: rop()?,
                stream: stream()?,
                plan: rplan()?,
            }),
            other => Err(format!("unknown iosim op '{other}'")),
        }
    }

    /// Simpler variants of this case for the shrinker, most aggressive first.
    pub fn shrink_candidates(&self) -> Vec<Case> {
        let mut out = Vec::new();
        let simpler_chunkings = |c: Chunking| -> Vec<Chunking> {
            match c {
                Chunking::Whole => vec![],
                Chunking::One => vec![Chunking::Whole],
                Chunking::Fixed(_) => vec![Chunking::Whole, Chunking::One],
                Chunking::Random(_) => vec![Chunking::Whole, Chunking::One],
                Chunking::RandomEintr(s) => {
                    vec![Chunking::Whole, Chunking::One, Chunking::Random(s)]
                }
            }
        };
        match self {
            Case::Write {
                kind,
                vseed,
                size,
                plan,
            } => {
                for s in 0..*size {
                    out.push(Case::Write {
                        kind: *kind,
                        vseed: *vseed,
                        size: s,
                        plan: plan.clone(),
                    });
                }
                for c in simpler_chunkings(plan.chunking) {
                    let mut p = plan.clone();
                    p.chunking = c;
                    out.push(Case::Write {
                        kind: *kind,
                        vseed: *vseed,
                        size: *size,
                        plan: p,
                    });
                }
                if let Some((k, f)) = plan.fault {
                    for nk in [0, k / 2, k.saturating_sub(1)] {
                        if nk < k {
                            let mut p = plan.clone();
                            p.fault = Some((nk, f));
                            out.push(Case::Write {
                                kind: *kind,
                                vseed: *vseed,
                                size: *size,
                                plan: p,
                            });
                        }
                    }
                }
            }
            Case::WriteSlice {
                kind,
                vseed,
                size,
                len,
            } => {
                for nl in [0, len / 2, len.saturating_sub(1)] {
                    if nl < *len {
                        out.push(Case::WriteSlice {
                            kind: *kind,
                            vseed: *vseed,
                            size: *size,
                            len: nl,
                        });
                    }
                }
            }
            Case::Build { bseed, size, sink } => {
                for s in 0..*size {
                    out.push(Case::Build {
                        bseed: *bseed,
                        size: s,
                        sink: sink.clone(),
                    });
                }
                match sink {
                    Sink::Io(plan) => {
                        for c in simpler_chunkings(plan.chunking) {
                            let mut p = plan.clone();
                            p.chunking = c;
                            out.push(Case::Build {
                                bseed: *bseed,
                                size: *size,
                                sink: Sink::Io(p),
                            });
                        }
                        if let Some((k, f)) = plan.fault {
                            for nk in [0, k / 2, k.saturating_sub(1)] {
                                if nk < k {
                                    let mut p = plan.clone();
                                    p.fault = Some((nk, f));
                                    out.push(Case::Build {
                                        bseed: *bseed,
                                        size: *size,
                                        sink: Sink::Io(p),
                                    });
                                }
                            }
                        }
                    }
                    Sink::Slice(len) => {
                        for nl in [0, len / 2, len.saturating_sub(1)] {
                            if nl < *len {
                                out.push(Case::Build {
                                    bseed: *bseed,
                                    size: *size,
                                    sink: Sink::Slice(nl),
                                });
                            }
                        }
                    }
                    Sink::Vec => {}
                }
            }
            Case::Read { op, stream, plan } | Case::Mem { op, stream, plan } => {
                let mk = |op: &ROp, stream: Vec<u8>, plan: ReaderPlan| match self {
                    Case::Read { .. } => Case::Read {
                        op: op.clone(),
                        stream,
                        plan,
                    },
                    _ => Case::Mem {
                        op: op.clone(),
                        stream,
                        plan,
                    },
                };
                for s in shrink_bytes(stream, op.kind.first_byte_is_param()) {
                    out.push(mk(op, s, plan.clone()));
                }
                for c in simpler_chunkings(plan.chunking) {
                    let mut p = plan.clone();
                    p.chunking = c;
                    out.push(mk(op, stream.clone(), p));
                }
                if plan.fault.is_some() {
                    let mut p = plan.clone();
                    p.fault = None;
                    out.push(mk(op, stream.clone(), p));
                }
                if let Some((k, f)) = plan.fault {
                    for nk in [0, k / 2, k.saturating_sub(1)] {
                        if nk < k {
                            let mut p = plan.clone();
                            p.fault = Some((nk, f));
                            out.push(mk(op, stream.clone(), p));
                        }
                    }
                }
            }
            Case::Cut { .. } => {}
            Case::Limited {
                data_len,
                limit,
                ops,
                plan,
            } => {
                for i in 0..ops.len() {
                    let mut o = ops.clone();
                    o.remove(i);
                    out.push(Case::Limited {
                        data_len: *data_len,
                        limit: *limit,
                        ops: o,
                        plan: plan.clone(),
                    });
                }
                for c in simpler_chunkings(plan.chunking) {
                    let mut p = plan.clone();
                    p.chunking = c;
                    out.push(Case::Limited {
                        data_len: *data_len,
                        limit: *limit,
                        ops: ops.clone(),
                        plan: p,
                    });
                }
                if plan.fault.is_some() {
                    let mut p = plan.clone();
                    p.fault = None;
                    out.push(Case::Limited {
                        data_len: *data_len,
                        limit: *limit,
                        ops: ops.clone(),
                        plan: p,
                    });
                }
                for (i, op) in ops.iter().enumerate() {
                    if let LOp::Read(n) = op {
                        for nn in [1usize, n / 2] {
                            if nn < *n && nn > 0 {
                                let mut o = ops.clone();
                                o[i] = LOp::Read(nn);
                                out.push(Case::Limited {
                                    data_len: *data_len,
                                    limit: *limit,
                                    ops: o,
                                    plan: plan.clone(),
                                });
                            }
                        }
                    }
                }
            }
            Case::Cmp {
                op,
                stream,
                slice_len,
                chunking,
                full,
            } => {
                if full.is_none() {
                    for s in shrink_bytes(stream, op.kind.first_byte_is_param()) {
                        let sl = (*slice_len).min(s.len());
                        out.push(Case::Cmp {
                            op: op.clone(),
                            stream: s,
                            slice_len: sl,
                            chunking: *chunking,
                            full: None,
                        });
                    }
                }
                for c in simpler_chunkings(*chunking) {
                    out.push(Case::Cmp {
                        op: op.clone(),
                        stream: stream.clone(),
                        slice_len: *slice_len,
                        chunking: c,
                        full: full.clone(),
                    });
                }
            }
        }
        out
    }
}

/// Candidate simplifications of a byte stream: cut the tail, zero bytes.
fn shrink_bytes(s: &[u8], keep_first: bool) -> Vec<Vec<u8>> {
    let mut out = Vec::new();
    let min = usize::from(keep_first);
    let mut cut = s.len() / 2;
    while cut >= 1 && s.len() - cut >= min {
        out.push(s[..s.len() - cut].to_vec());
        if cut == 1 {
            break;
        }
        cut /= 2;
    }
    // zero out blocks, then single bytes (bounded effort)
    let mut block = s.len() / 2;
    while block >= 1 {
        let mut i = 0;
        while i < s.len() && out.len() < 400 {
            let end = (i + block).min(s.len());
            if s[i..end].iter().any(|b| *b != 0) {
                let mut c = s.to_vec();
                for b in &mut c[i..end] {
                    *b = 0;
                }
                out.push(c);
            }
            i += block;
        }
        if block == 1 {
            break;
        }
        block /= 2;
    }
    out
}
