//! Batch runner: executes seeded runs in worker processes (so that aborts,
//! signals and Miri diagnostics are attributable to the run and case in
//! flight), merges statistics, minimises and persists violations, verifies
//! that each replay file reproduces in a fresh process, and writes evidence.
//!
//! The only wall-clock reads in the whole harness are here (wall_s and the
//! batch time cap); nothing a run does depends on them.

use crate::json::J;
use crate::stats::{Stats, Violation};
use std::io::{BufRead, BufReader, Write};
use std::path::{Path, PathBuf};
use std::process::{Command, Stdio};
use std::sync::atomic::{AtomicBool, Ordering};
use std::time::Instant;

static TRACE: AtomicBool = AtomicBool::new(false);
static IN_GUARDED: AtomicBool = AtomicBool::new(false);

/// Panics inside code under test are caught and become violations; panics of
/// the harness itself must stay visible.
pub fn install_panic_hook() {
    std::panic::set_hook(Box::new(|info| {
        if !IN_GUARDED.load(Ordering::Relaxed) {
            eprintln!("harness panic: {info}");
        }
    }));
}

pub fn set_guarded(on: bool) -> bool {
    IN_GUARDED.swap(on, Ordering::Relaxed)
}

pub fn set_tracing(on: bool) {
    TRACE.store(on, Ordering::Relaxed);
}
#[inline]
pub fn tracing() -> bool {
    TRACE.load(Ordering::Relaxed)
}

/// In trace mode: header of a case that is announced operation by operation
/// (`announce_op`); the parent assembles header + operations.
pub fn announce_case_header(header: &J) {
    if tracing() {
        let out = std::io::stdout();
        let mut l = out.lock();
        let _ = writeln!(l, "M {}", header.to_string());
        let _ = l.flush();
    }
}

pub fn announce_op(op: &J) {
    if tracing() {
        let out = std::io::stdout();
        let mut l = out.lock();
        let _ = writeln!(l, "O {}", op.to_string());
        let _ = l.flush();
    }
}

/// In trace mode, prints the case about to be executed (flushes), so a parent
/// process can tell which case was in flight when this process died.
pub fn announce_case(case: &J) {
    if tracing() {
        let out = std::io::stdout();
        let mut l = out.lock();
        let _ = writeln!(l, "C {}", case.to_string());
        let _ = l.flush();
    }
}

/// The informative lines of a dead process' stderr.
pub fn crash_summary(stderr: &str) -> String {
    let mut picked: Vec<&str> = stderr
        .lines()
        .filter(|l| {
            let t = l.trim_start();
            t.starts_with("error:")
                || t.starts_with("error[")
                || t.contains("panicked at")
                || t.contains("unsafe precondition")
                || t.contains("Undefined Behavior")
                || t.contains("non-unwinding panic")
                || t.contains("harness panic")
                || t.contains("ERROR: AddressSanitizer")
                || t.starts_with("SUMMARY: AddressSanitizer")
        })
        .take(4)
        .collect();
    if picked.is_empty() {
        let tail: Vec<&str> = stderr.lines().rev().take(6).collect();
        picked = tail.into_iter().rev().collect();
    }
    let mut s = picked.join(" | ");
    if s.len() > 600 {
        let mut cut = 600;
        while !s.is_char_boundary(cut) {
            cut -= 1;
        }
        s.truncate(cut);
    }
    s
}

pub fn verif_dir() -> PathBuf {
    std::env::var("VERIF_DIR")
        .map(PathBuf::from)
        .unwrap_or_else(|_| PathBuf::from("/verif"))
}

/// Where evidence and replay files go (default: the verif directory; the
/// sensitivity tooling redirects it so registered evidence is not touched).
pub fn out_dir() -> PathBuf {
    std::env::var("VERIF_OUT_DIR")
        .map(PathBuf::from)
        .unwrap_or_else(|_| verif_dir())
}

pub const DEFAULT_SEED: u64 = 20260925;

pub fn seed_from_env() -> u64 {
    match std::env::var("VERIF_SEED") {
        Ok(s) => s.trim().parse::<u64>().unwrap_or_else(|_| {
            // any string is a seed: hash it
            crate::prng::fnv64(s.as_bytes())
        }),
        Err(_) => DEFAULT_SEED,
    }
}

pub fn workers_from_env() -> usize {
    std::env::var("VERIF_WORKERS")
        .ok()
        .and_then(|s| s.parse().ok())
        .filter(|n| *n >= 1)
        .unwrap_or_else(|| {
            std::thread::available_parallelism()
                .map(|n| n.get())
                .unwrap_or(4)
                .min(16)
        })
}

/// What a worker is asked to do.
#[derive(Clone, Debug)]
pub struct WorkerSpec {
    pub property: String,
    /// engine configuration name (e.g. "clean", "faulty", "inspect")
    pub config: String,
    pub seed: u64,
    pub first: u64,
    pub stride: u64,
    pub count: u64,
    /// stop starting new runs after this many seconds (0 = no cap)
    pub time_cap_s: u64,
    pub trace: bool,
    pub sets_file: Option<PathBuf>,
    pub digests: bool,
    /// runs not to execute (they killed an earlier incarnation of this worker)
    pub skip: Vec<u64>,
}

impl WorkerSpec {
    pub fn to_args(&self) -> Vec<String> {
        let mut a = vec![
            "worker".to_string(),
            self.property.clone(),
            self.config.clone(),
            self.seed.to_string(),
            self.first.to_string(),
            self.stride.to_string(),
            self.count.to_string(),
            self.time_cap_s.to_string(),
        ];
        if self.trace {
            a.push("--trace".into());
        }
        if self.digests {
            a.push("--digests".into());
        }
        if let Some(p) = &self.sets_file {
            a.push("--sets-file".into());
            a.push(p.display().to_string());
        }
        for r in &self.skip {
            a.push("--skip".into());
            a.push(r.to_string());
        }
        a
    }
    pub fn from_args(a: &[String]) -> Result<WorkerSpec, String> {
        if a.len() < 7 {
            return Err("worker <property> <config> <seed> <first> <stride> <count> <time_cap_s> [--trace] [--digests] [--sets-file p]".into());
        }
        let n = |s: &String| s.parse::<u64>().map_err(|e| format!("{s}: {e}"));
        let mut spec = WorkerSpec {
            property: a[0].clone(),
            config: a[1].clone(),
            seed: n(&a[2])?,
            first: n(&a[3])?,
            stride: n(&a[4])?,
            count: n(&a[5])?,
            time_cap_s: n(&a[6])?,
            trace: false,
            sets_file: None,
            digests: false,
            skip: Vec::new(),
        };
        let mut i = 7;
        while i < a.len() {
            match a[i].as_str() {
                "--trace" => spec.trace = true,
                "--digests" => spec.digests = true,
                "--sets-file" => {
                    i += 1;
                    spec.sets_file = Some(PathBuf::from(a.get(i).ok_or("--sets-file needs a path")?));
                }
                "--skip" => {
                    i += 1;
                    spec.skip.push(n(a.get(i).ok_or("--skip needs a run")?)?);
                }
                other => return Err(format!("unknown worker flag {other}")),
            }
            i += 1;
        }
        Ok(spec)
    }
}

/// Executes the runs of a worker spec in this process, speaking the line
/// protocol on stdout:
///   B <run>            run starts
///   C <case json>      (trace mode) case about to execute
///   E <run> <digest>   run finished; digest of its event log
///   V <violation json>
///   S <stats json>     final statistics
///   X <set> <hex...>   (when no sets file) distinct-set members
pub fn worker_main(spec: &WorkerSpec) -> i32 {
    set_tracing(spec.trace);
    install_panic_hook();
    let start = Instant::now();
    let mut stats = Stats::new();
    let out = std::io::stdout();
    let mut done = 0u64;
    let mut reported = 0usize;
    let mut violating_runs = 0usize;
    for i in 0..spec.count {
        if violating_runs >= 25 {
            // the property is broken; more runs add nothing
            stats.inc("worker_stopped_early_after_violations");
            break;
        }
        if spec.time_cap_s > 0 && start.elapsed().as_secs() >= spec.time_cap_s {
            break;
        }
        let run = spec.first + i * spec.stride;
        if spec.skip.contains(&run) {
            continue;
        }
        {
            let mut l = out.lock();
            let _ = writeln!(l, "B {run}");
            let _ = l.flush();
        }
        let (violations, digest) =
            crate::dispatch::exec_run(&spec.property, &spec.config, spec.seed, run, &mut stats);
        let mut l = out.lock();
        if !violations.is_empty() {
            violating_runs += 1;
        }
        for v in violations {
            // bounded volume: the first few violations of a worker are
            // reported in full, the rest are only counted
            if reported < 4 {
                let _ = writeln!(l, "V {run} {}", v.to_json().to_string());
                reported += 1;
            } else {
                stats.inc("violations_not_reported_in_full");
            }
        }
        if spec.digests {
            let _ = writeln!(l, "E {run} {digest:016x}");
        } else {
            let _ = writeln!(l, "E {run}");
        }
        let _ = l.flush();
        done += 1;
    }
    stats.add("runs", done);
    let mut l = out.lock();
    match &spec.sets_file {
        Some(p) => {
            if let Err(e) = stats.write_sets(p) {
                eprintln!("harness: cannot write sets file {}: {e}", p.display());
                return 2;
            }
        }
        None => {
            for (name, set) in &stats.sets {
                let mut v: Vec<u64> = set.iter().copied().collect();
                v.sort_unstable();
                for chunk in v.chunks(512) {
                    let mut line = format!("X {name}");
                    for d in chunk {
                        line.push_str(&format!(" {d:x}"));
                    }
                    let _ = writeln!(l, "{line}");
                }
            }
        }
    }
    let _ = writeln!(l, "S {}", stats.to_json().to_string());
    let _ = l.flush();
    0
}

pub fn stall_limit(launcher: &Launcher) -> std::time::Duration {
    let secs = std::env::var("VERIF_STALL_S")
        .ok()
        .and_then(|s| s.parse().ok())
        .unwrap_or(match launcher {
            Launcher::Native | Launcher::Asan => 60,
            Launcher::Miri => 900,
        });
    std::time::Duration::from_secs(secs)
}

/// A single case normally takes microseconds (seconds under Miri): the
/// limit for one case in a child process is tighter than for a worker.
pub fn case_limit(launcher: &Launcher) -> std::time::Duration {
    let w = stall_limit(launcher).as_secs();
    std::time::Duration::from_secs(match launcher {
        Launcher::Native | Launcher::Asan => w.min(20),
        Launcher::Miri => w.min(600),
    })
}

/// How to start a worker: natively (this executable) or under Miri.
#[derive(Clone, Debug, PartialEq)]
pub enum Launcher {
    Native,
    Miri,
    /// the same harness built with AddressSanitizer (path in VERIF_ASAN_BIN)
    Asan,
}

fn command_for(launcher: &Launcher, args: &[String]) -> Command {
    match launcher {
        Launcher::Native => {
            let exe = std::env::current_exe().expect("current_exe");
            let mut c = Command::new(exe);
            c.args(args);
            c
        }
        Launcher::Asan => {
            let exe = std::env::var("VERIF_ASAN_BIN").unwrap_or_else(|_| {
                verif_dir()
                    .join("target/asan/x86_64-unknown-linux-gnu/verif/sim")
                    .display()
                    .to_string()
            });
            let mut c = Command::new(exe);
            c.args(args);
            c.env("ASAN_OPTIONS", "detect_leaks=0:abort_on_error=0:allocator_may_return_null=1");
            c
        }
        Launcher::Miri => {
            let vd = verif_dir();
            let mut c = Command::new("cargo");
            c.arg("+nightly")
                .arg("miri")
                .arg("run")
                .arg("--offline")
                .arg("--quiet")
                .arg("--manifest-path")
                .arg(vd.join("sim/Cargo.toml"))
                .arg("--target-dir")
                .arg(vd.join("target/miri"))
                .arg("--")
                .args(args);
            c.env("RUSTFLAGS", "--cfg etherparse_verif");
            c.env(
                "MIRIFLAGS",
                std::env::var("VERIF_MIRIFLAGS").unwrap_or_else(|_| "-Zmiri-disable-isolation".to_string()),
            );
            c.env("CARGO_NET_OFFLINE", "true");
            c
        }
    }
}

#[derive(Debug, Default)]
pub struct WorkerResult {
    pub stats: Option<Stats>,
    pub violations: Vec<(Option<u64>, Violation)>,
    pub digests: Vec<(u64, u64)>,
    /// run (and, in trace mode, case) in flight when the process died
    pub crashed_run: Option<u64>,
    pub crashed_case: Option<J>,
    pub exit: String,
    pub stderr_tail: String,
    pub sets: Vec<(String, Vec<u64>)>,
    pub hung: bool,
}

pub fn run_worker(launcher: &Launcher, spec: &WorkerSpec) -> WorkerResult {
    let mut cmd = command_for(launcher, &spec.to_args());
    cmd.stdin(Stdio::null())
        .stdout(Stdio::piped())
        .stderr(Stdio::piped());
    let mut res = WorkerResult::default();
    let mut child = match cmd.spawn() {
        Ok(c) => c,
        Err(e) => {
            res.exit = format!("spawn failed: {e}");
            return res;
        }
    };
    let stderr = child.stderr.take().unwrap();
    let err_thread = std::thread::spawn(move || {
        let mut tail: Vec<String> = Vec::new();
        for line in BufReader::new(stderr).lines().map_while(Result::ok) {
            // keep the head (where the diagnostic is) and drop the rest
            if tail.len() < 400 {
                tail.push(line);
            }
        }
        tail.join("\n")
    });
    let stdout = child.stdout.take().unwrap();
    let mut in_flight: Option<u64> = None;
    let mut last_case: Option<String> = None;
    let mut case_header: Option<String> = None;
    let mut case_ops: Vec<String> = Vec::new();
    // watchdog: a worker that produces no protocol line for too long hangs
    // (unbounded loop in the code under test); it is killed and the run in
    // flight is treated like a crash of class "hang"
    let stall_limit = stall_limit(launcher);
    let (tx, rx) = std::sync::mpsc::channel::<String>();
    let out_thread = std::thread::spawn(move || {
        for line in BufReader::new(stdout).lines().map_while(Result::ok) {
            if tx.send(line).is_err() {
                break;
            }
        }
    });
    let mut hung = false;
    loop {
        let line = match rx.recv_timeout(stall_limit) {
            Ok(l) => l,
            Err(std::sync::mpsc::RecvTimeoutError::Disconnected) => break,
            Err(std::sync::mpsc::RecvTimeoutError::Timeout) => {
                hung = true;
                let _ = child.kill();
                break;
            }
        };
        let (tag, rest) = match line.split_once(' ') {
            Some(p) => p,
            None => continue,
        };
        match tag {
            "B" => {
                in_flight = rest.trim().parse().ok();
                last_case = None;
                case_header = None;
                case_ops.clear();
            }
            "C" => last_case = Some(rest.to_string()),
            "M" => {
                case_header = Some(rest.to_string());
                case_ops.clear();
            }
            "O" => case_ops.push(rest.to_string()),
            "E" => {
                let mut it = rest.split_whitespace();
                let run: Option<u64> = it.next().and_then(|s| s.parse().ok());
                if let (Some(r), Some(d)) = (run, it.next()) {
                    if let Ok(d) = u64::from_str_radix(d, 16) {
                        res.digests.push((r, d));
                    }
                }
                in_flight = None;
                last_case = None;
            }
            "V" => {
                let (run, json) = rest.split_once(' ').unwrap_or(("", rest));
                if let Ok(j) = J::parse(json) {
                    if let Ok(v) = Violation::from_json(&j) {
                        res.violations.push((run.parse().ok(), v));
                    }
                }
            }
            "S" => {
                if let Ok(j) = J::parse(rest) {
                    res.stats = Stats::from_json(&j).ok();
                }
            }
            "X" => {
                let mut it = rest.split_whitespace();
                if let Some(name) = it.next() {
                    let v: Vec<u64> = it.filter_map(|h| u64::from_str_radix(h, 16).ok()).collect();
                    res.sets.push((name.to_string(), v));
                }
            }
            _ => {}
        }
    }
    let status = child.wait();
    drop(rx);
    let _ = out_thread.join();
    res.stderr_tail = err_thread.join().unwrap_or_default();
    res.exit = match &status {
        Ok(_) if hung => format!("killed by the watchdog: no progress for {} s (hang)", stall_limit.as_secs()),
        Ok(s) => format!("{s}"),
        Err(e) => format!("wait failed: {e}"),
    };
    res.hung = hung;
    let ok = matches!(&status, Ok(s) if s.success());
    if !ok || res.stats.is_none() {
        res.crashed_run = in_flight;
        res.crashed_case = last_case.and_then(|c| J::parse(&c).ok());
        if res.crashed_case.is_none() {
            if let Some(h) = case_header.and_then(|h| J::parse(&h).ok()) {
                let ops: Vec<J> = case_ops.iter().filter_map(|o| J::parse(o).ok()).collect();
                res.crashed_case = Some(h.set("ops", J::Arr(ops)));
            }
        }
    }
    if let (Some(stats), Some(p)) = (res.stats.as_mut(), &spec.sets_file) {
        let _ = stats.read_sets(p);
        let _ = std::fs::remove_file(p);
    }
    if let Some(stats) = res.stats.as_mut() {
        for (name, v) in res.sets.drain(..) {
            for d in v {
                stats.mark(&name, d);
            }
        }
    }
    res
}

/// One batch: `runs` runs of `property` in configuration `config`, spread
/// over `workers` processes.
pub struct Batch {
    pub property: String,
    pub config: String,
    pub seed: u64,
    pub runs: u64,
    pub workers: usize,
    pub launcher: Launcher,
    pub time_cap_s: u64,
    pub digests: bool,
}

pub struct BatchResult {
    pub stats: Stats,
    pub violations: Vec<(Option<u64>, Violation)>,
    /// (run, case in flight if known, exit status, stderr tail)
    pub crashes: Vec<(u64, Option<J>, String, String)>,
    pub digests: Vec<(u64, u64)>,
    pub harness_errors: Vec<String>,
    pub runs_done: u64,
}

pub fn tmp_dir() -> PathBuf {
    let d = verif_dir().join("target/tmp");
    let _ = std::fs::create_dir_all(&d);
    d
}

pub fn run_batch(b: &Batch) -> BatchResult {
    let workers = b.workers.max(1).min(b.runs.max(1) as usize);
    let mut handles = Vec::new();
    for w in 0..workers {
        let count = (b.runs + workers as u64 - 1 - w as u64) / workers as u64;
        let spec = WorkerSpec {
            property: b.property.clone(),
            config: b.config.clone(),
            seed: b.seed,
            first: w as u64,
            stride: workers as u64,
            count,
            time_cap_s: b.time_cap_s,
            trace: false,
            sets_file: if b.launcher != Launcher::Miri {
                Some(tmp_dir().join(format!(
                    "sets-{}-{}-{}-{}.bin",
                    std::process::id(),
                    b.property,
                    b.config,
                    w
                )))
            } else {
                None
            },
            digests: b.digests,
            skip: Vec::new(),
        };
        let launcher = b.launcher.clone();
        handles.push(std::thread::spawn(move || {
            // a run that kills the worker is recorded and skipped; the worker
            // range is then executed again so no other run is lost
            let mut spec = spec;
            let mut crashes = Vec::new();
            loop {
                let r = run_worker(&launcher, &spec);
                match (r.stats.is_none(), r.crashed_run) {
                    (true, Some(run)) if crashes.len() < 8 => {
                        crashes.push((run, r.crashed_case.clone(), r.exit.clone(), r.stderr_tail.clone()));
                        spec.skip.push(run);
                    }
                    _ => return (spec, r, crashes),
                }
            }
        }));
    }
    let mut out = BatchResult {
        stats: Stats::new(),
        violations: Vec::new(),
        crashes: Vec::new(),
        digests: Vec::new(),
        harness_errors: Vec::new(),
        runs_done: 0,
    };
    for h in handles {
        let (spec, r, crashes) = h.join().expect("worker thread");
        out.crashes.extend(crashes);
        out.violations.extend(r.violations);
        out.digests.extend(r.digests);
        match r.stats {
            Some(s) => {
                out.runs_done += s.get("runs");
                out.stats.absorb(s);
            }
            None => match r.crashed_run {
                Some(run) => out.crashes.push((run, r.crashed_case, r.exit, r.stderr_tail)),
                None => out.harness_errors.push(format!(
                    "worker {:?} ended without statistics and without a run in flight: {} / {}",
                    spec.to_args(),
                    r.exit,
                    r.stderr_tail
                )),
            },
        }
    }
    out.digests.sort_unstable();
    out
}

/// Re-executes a single run in trace mode to learn the case in flight when
/// the process dies. Returns (case, exit, stderr) if it died again.
pub fn locate_crash(
    launcher: &Launcher,
    property: &str,
    config: &str,
    seed: u64,
    run: u64,
) -> Option<(Option<J>, String, String)> {
    let spec = WorkerSpec {
        property: property.to_string(),
        config: config.to_string(),
        seed,
        first: run,
        stride: 1,
        count: 1,
        time_cap_s: 0,
        trace: true,
        sets_file: None,
        digests: false,
        skip: Vec::new(),
    };
    let r = run_worker(launcher, &spec);
    if r.stats.is_none() {
        Some((r.crashed_case, r.exit, r.stderr_tail))
    } else {
        None
    }
}

/// Executes one case in a child process; returns Ok(None) if it held,
/// Ok(Some(class)) if it failed (class "crash" when the process died).
pub fn case_in_child(launcher: &Launcher, case: &J) -> Result<Option<(String, String)>, String> {
    let path = tmp_dir().join(format!(
        "case-{}-{:x}.json",
        std::process::id(),
        crate::prng::fnv64(case.to_string().as_bytes())
    ));
    std::fs::write(&path, case.to_string()).map_err(|e| e.to_string())?;
    let mut cmd = command_for(launcher, &["case".to_string(), path.display().to_string()]);
    let mut child = cmd
        .stdin(Stdio::null())
        .stdout(Stdio::piped())
        .stderr(Stdio::piped())
        .spawn()
        .map_err(|e| format!("spawn: {e}"))?;
    // bounded wait: a case that does not finish is a hang
    let limit = case_limit(launcher);
    let t0 = Instant::now();
    let mut timed_out = false;
    let mut so = child.stdout.take().unwrap();
    let mut se = child.stderr.take().unwrap();
    let t_out = std::thread::spawn(move || {
        let mut b = Vec::new();
        let _ = std::io::Read::read_to_end(&mut so, &mut b);
        b
    });
    let t_err = std::thread::spawn(move || {
        let mut b = Vec::new();
        let _ = std::io::Read::read_to_end(&mut se, &mut b);
        b
    });
    let status = loop {
        match child.try_wait() {
            Ok(Some(s)) => break s,
            Ok(None) => {
                if t0.elapsed() > limit {
                    timed_out = true;
                    let _ = child.kill();
                    break child.wait().map_err(|e| format!("wait: {e}"))?;
                }
                std::thread::sleep(std::time::Duration::from_millis(3));
            }
            Err(e) => return Err(format!("wait: {e}")),
        }
    };
    struct Out {
        status: std::process::ExitStatus,
        stdout: Vec<u8>,
        stderr: Vec<u8>,
    }
    let out = Out {
        status,
        stdout: t_out.join().unwrap_or_default(),
        stderr: t_err.join().unwrap_or_default(),
    };
    let _ = std::fs::remove_file(&path);
    if timed_out {
        return Ok(Some((
            "hang".to_string(),
            format!("the case did not finish within {} s", limit.as_secs()),
        )));
    }
    let stdout = String::from_utf8_lossy(&out.stdout);
    for line in stdout.lines() {
        if let Some(rest) = line.strip_prefix("R ") {
            if rest == "ok" {
                return Ok(None);
            }
            if let Some(f) = rest.strip_prefix("fail ") {
                let (class, detail) = f.split_once(' ').unwrap_or((f, ""));
                return Ok(Some((class.to_string(), detail.to_string())));
            }
            if let Some(e) = rest.strip_prefix("error ") {
                return Err(e.to_string());
            }
        }
    }
    if out.status.success() {
        return Err("case child produced no result line".into());
    }
    let stderr = String::from_utf8_lossy(&out.stderr);
    Ok(Some((
        "crash".to_string(),
        format!("process died ({}): {}", out.status, crash_summary(&stderr)),
    )))
}

pub fn case_main(path: &str) -> i32 {
    install_panic_hook();
    let text = match std::fs::read_to_string(path) {
        Ok(t) => t,
        Err(e) => {
            println!("R error cannot read {path}: {e}");
            return 2;
        }
    };
    let j = match J::parse(&text) {
        Ok(j) => j,
        Err(e) => {
            println!("R error {e}");
            return 2;
        }
    };
    match crate::dispatch::exec_case(&j) {
        Ok(Ok(())) => {
            println!("R ok");
            0
        }
        Ok(Err((class, detail))) => {
            println!("R fail {class} {}", detail.replace('\n', " "));
            0
        }
        Err(e) => {
            println!("R error {e}");
            2
        }
    }
}

/// Greedy minimisation: keeps a candidate only if the same violation class
/// recurs. `test` returns the class of the failure (None = holds).
pub fn shrink(
    case: &J,
    class: &str,
    budget: usize,
    test: &mut dyn FnMut(&J) -> Option<String>,
) -> (J, usize) {
    let mut current = case.clone();
    let mut tried = 0usize;
    // deterministic effort bound: candidates are charged by their size
    // (number of operations), so long histories cannot stall the check
    let mut cost = 0usize;
    let cost_budget = 1_500_000usize;
    let mut progress = true;
    while progress && tried < budget && cost < cost_budget {
        progress = false;
        for cand in crate::dispatch::shrink_candidates(&current) {
            if tried >= budget || cost >= cost_budget {
                break;
            }
            tried += 1;
            cost += cand.arr_of("ops").map(|o| o.len()).unwrap_or(1).max(1);
            if test(&cand).as_deref() == Some(class) {
                current = cand;
                progress = true;
                break;
            }
        }
    }
    (current, tried)
}

pub struct Finding {
    pub violation: Violation,
    pub replay_path: PathBuf,
    pub known: Option<String>,
    pub seed: u64,
    pub run: Option<u64>,
}

/// Minimises a violation, writes its replay file and confirms in a fresh
/// process that replaying the file reproduces the same violation class.
pub fn persist_violation(
    v: &Violation,
    seed: u64,
    run: Option<u64>,
    config: &str,
    launcher: &Launcher,
) -> Result<Finding, String> {
    let crash = v.class == "crash" || v.class == "hang";
    let budget = if v.class == "hang" {
        // every candidate that still hangs costs the full time limit
        6
    } else if crash {
        if *launcher == Launcher::Miri {
            8
        } else {
            150
        }
    } else {
        3000
    };
    let class = v.class.clone();
    let mut last_detail = v.detail.clone();
    let (min_case, tried) = {
        let mut test = |c: &J| -> Option<String> {
            if crash {
                match case_in_child(launcher, c) {
                    Ok(Some((cl, d))) => {
                        if cl == class {
                            last_detail = d;
                        }
                        Some(cl)
                    }
                    _ => None,
                }
            } else {
                match crate::dispatch::exec_case(c) {
                    Ok(Err((cl, d))) => {
                        if cl == class {
                            last_detail = d;
                        }
                        Some(cl)
                    }
                    _ => None,
                }
            }
        };
        shrink(&v.case, &class, budget, &mut test)
    };
    let minimal = Violation {
        property: v.property.clone(),
        class: class.clone(),
        detail: last_detail,
        case: min_case,
    };
    let dir = out_dir().join("replays");
    std::fs::create_dir_all(&dir).map_err(|e| e.to_string())?;
    let sig = crate::dispatch::signature(&minimal);
    let name = format!(
        "{}-{}-{:08x}.json",
        minimal.property,
        class.replace(|c: char| !c.is_ascii_alphanumeric() && c != '-', "_"),
        crate::prng::fnv64(minimal.case.to_string().as_bytes()) as u32
    );
    let path = dir.join(name);
    let file = J::obj()
        .set("property", J::s(&minimal.property))
        .set("class", J::s(&minimal.class))
        .set("detail", J::s(&minimal.detail))
        .set("signature", J::s(&sig))
        .set("verif_seed", J::s(&seed.to_string()))
        .set("run", run.map(J::u).unwrap_or(J::Null))
        .set("config", J::s(config))
        .set(
            "launcher",
            J::s(match launcher {
                Launcher::Miri => "miri",
                Launcher::Asan => "asan",
                Launcher::Native => "native",
            }),
        )
        .set("shrink_candidates_tried", J::u(tried as u64))
        .set("original_case_bytes", J::u(v.case.to_string().len() as u64))
        .set("case", minimal.case.clone());
    std::fs::write(&path, file.to_pretty()).map_err(|e| e.to_string())?;
    // the minimised file must reproduce in a fresh process
    match case_in_child(launcher, &minimal.case) {
        Ok(Some((cl, _))) if cl == class => {}
        other => {
            // a crash that follows memory corruption may depend on the layout
            // of the process: fall back to the case as it was found (not
            // minimised) if that one reproduces in a fresh process
            let mut recovered = false;
            if crash {
                for _ in 0..3 {
                    if let Ok(Some((cl, _))) = case_in_child(launcher, &v.case) {
                        if cl == class {
                            recovered = true;
                            break;
                        }
                    }
                }
            }
            if !recovered {
                return Err(format!(
                    "replay of {} in a fresh process did not reproduce class '{class}': {other:?}",
                    path.display()
                ));
            }
            let _ = std::fs::remove_file(&path);
            let unminimised = Violation {
                property: v.property.clone(),
                class: class.clone(),
                detail: v.detail.clone(),
                case: v.case.clone(),
            };
            return persist_unminimised(unminimised, seed, run, config, launcher);
        }
    }
    let known = crate::known::lookup(&minimal.property, &sig);
    Ok(Finding {
        violation: minimal,
        replay_path: path,
        known,
        seed,
        run,
    })
}

/// Writes the replay file of a crash whose minimised form did not reproduce
/// in a fresh process; the case is stored as found.
fn persist_unminimised(
    v: Violation,
    seed: u64,
    run: Option<u64>,
    config: &str,
    launcher: &Launcher,
) -> Result<Finding, String> {
    let dir = out_dir().join("replays");
    std::fs::create_dir_all(&dir).map_err(|e| e.to_string())?;
    let sig = crate::dispatch::signature(&v);
    let name = format!(
        "{}-{}-{:08x}.json",
        v.property,
        v.class.replace(|c: char| !c.is_ascii_alphanumeric() && c != '-', "_"),
        crate::prng::fnv64(v.case.to_string().as_bytes()) as u32
    );
    let path = dir.join(name);
    let file = J::obj()
        .set("property", J::s(&v.property))
        .set("class", J::s(&v.class))
        .set("detail", J::s(&v.detail))
        .set("signature", J::s(&sig))
        .set("verif_seed", J::s(&seed.to_string()))
        .set("run", run.map(J::u).unwrap_or(J::Null))
        .set("config", J::s(config))
        .set(
            "launcher",
            J::s(match launcher {
                Launcher::Miri => "miri",
                Launcher::Asan => "asan",
                Launcher::Native => "native",
            }),
        )
        .set("shrink_candidates_tried", J::u(0))
        .set("minimised", J::Bool(false))
        .set("original_case_bytes", J::u(v.case.to_string().len() as u64))
        .set("case", v.case.clone());
    std::fs::write(&path, file.to_pretty()).map_err(|e| e.to_string())?;
    let known = crate::known::lookup(&v.property, &sig);
    Ok(Finding { violation: v, replay_path: path, known, seed, run })
}

pub fn replay_main(path: &str) -> i32 {
    let text = match std::fs::read_to_string(path) {
        Ok(t) => t,
        Err(e) => {
            eprintln!("harness: cannot read {path}: {e}");
            return 2;
        }
    };
    let j = match J::parse(&text) {
        Ok(j) => j,
        Err(e) => {
            eprintln!("harness: {path}: {e}");
            return 2;
        }
    };
    let (Some(case), Ok(property), Ok(class)) = (j.get("case"), j.str_of("property"), j.str_of("class")) else {
        eprintln!("harness: {path} is not a replay file");
        return 2;
    };
    let launcher = match j.str_of("launcher") {
        Ok("miri") => Launcher::Miri,
        Ok("asan") => Launcher::Asan,
        _ => Launcher::Native,
    };
    println!("replaying {path}: property={property} class={class} launcher={launcher:?}");
    match case_in_child(&launcher, case) {
        Ok(None) => {
            println!("replay: the case holds on the current tree (violation not reproduced)");
            0
        }
        Ok(Some((cl, detail))) => {
            println!("replay: class={cl} {detail}");
            if cl == class {
                println!("VIOLATION property={property} replay={path}");
            } else {
                println!("VIOLATION property={property} replay={path} (different class than recorded: {class})");
            }
            1
        }
        Err(e) => {
            eprintln!("harness: {e}");
            2
        }
    }
}

pub fn write_evidence(property: &str, j: &J) -> Result<(), String> {
    let dir = out_dir().join("evidence");
    std::fs::create_dir_all(&dir).map_err(|e| e.to_string())?;
    let p = dir.join(format!("{property}.json"));
    std::fs::write(&p, j.to_pretty()).map_err(|e| format!("{}: {e}", p.display()))
}

pub fn path_display(p: &Path) -> String {
    p.display().to_string()
}
