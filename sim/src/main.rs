mod alloc_seam;
mod dispatch;
mod iosim;
mod json;
mod known;
mod netsim;
mod orchestrate;
mod prng;
mod runner;
mod stats;

#[global_allocator]
static GLOBAL: alloc_seam::SeamAlloc = alloc_seam::SeamAlloc;

fn usage() -> i32 {
    eprintln!(
        "usage:\n  sim run <C01|C06|C11|C16> <quick|thorough>\n  sim replay <file>\n  sim selftest [runs]\n  sim worker ... (internal)\n  sim case <file> (internal)"
    );
    2
}

fn main() {
    let args: Vec<String> = std::env::args().skip(1).collect();
    let code = match args.first().map(|s| s.as_str()) {
        Some("run") if args.len() >= 3 => orchestrate::run_main(&args[1], &args[2]),
        Some("replay") if args.len() >= 2 => runner::replay_main(&args[1]),
        Some("selftest") => orchestrate::selftest_main(args.get(1).and_then(|s| s.parse().ok())),
        Some("worker") => match runner::WorkerSpec::from_args(&args[1..]) {
            Ok(spec) => runner::worker_main(&spec),
            Err(e) => {
                eprintln!("harness: {e}");
                2
            }
        },
        Some("case") if args.len() >= 2 => runner::case_main(&args[1]),
        _ => usage(),
    };
    std::process::exit(code);
}
