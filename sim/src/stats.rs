//! Counters, distinct-case sets and samples collected while checks run.
//! Nothing in here draws from a PRNG or reads a clock.

use crate::json::J;
use std::collections::{BTreeMap, HashSet};

#[derive(Default, Clone, Debug)]
pub struct Stats {
    pub counters: BTreeMap<String, u64>,
    /// named sets of 64-bit digests; merged by union
    pub sets: BTreeMap<String, HashSet<u64>>,
    /// parent side: members of sets read back from workers (sorted and
    /// de-duplicated by `finalize`)
    pub merged: BTreeMap<String, Vec<u64>>,
    pub samples: Vec<J>,
    /// simulated time covered (netsim), microseconds
    pub sim_time_us: u64,
    /// distinct-set members not recorded because a worker's set was full
    pub overflow: u64,
}

pub const SET_CAP_PER_WORKER: usize = 1_500_000;

impl Stats {
    pub fn new() -> Stats {
        Stats::default()
    }
    #[inline]
    pub fn add(&mut self, key: &str, n: u64) {
        if n == 0 {
            self.counters.entry(key.to_string()).or_insert(0);
            return;
        }
        if let Some(v) = self.counters.get_mut(key) {
            *v += n;
        } else {
            self.counters.insert(key.to_string(), n);
        }
    }
    #[inline]
    pub fn inc(&mut self, key: &str) {
        self.add(key, 1);
    }
    pub fn get(&self, key: &str) -> u64 {
        self.counters.get(key).copied().unwrap_or(0)
    }
    pub fn mark(&mut self, set: &str, digest: u64) {
        if let Some(s) = self.sets.get_mut(set) {
            // bounded memory: beyond the cap members are no longer recorded
            // and the distinct count becomes a lower bound
            if s.len() >= SET_CAP_PER_WORKER {
                if !s.contains(&digest) {
                    self.overflow += 1;
                }
                return;
            }
            s.insert(digest);
        } else {
            let mut s = HashSet::new();
            s.insert(digest);
            self.sets.insert(set.to_string(), s);
        }
    }
    pub fn set_len(&self, set: &str) -> u64 {
        self.sets.get(set).map(|s| s.len() as u64).unwrap_or(0)
            + self.merged.get(set).map(|s| s.len() as u64).unwrap_or(0)
    }
    /// Folds all set members into sorted, de-duplicated vectors.
    pub fn finalize(&mut self) {
        for (k, s) in std::mem::take(&mut self.sets) {
            self.merged.entry(k).or_default().extend(s);
        }
        for v in self.merged.values_mut() {
            v.sort_unstable();
            v.dedup();
        }
    }
    pub fn set_names(&self) -> Vec<String> {
        let mut n: Vec<String> = self.sets.keys().chain(self.merged.keys()).cloned().collect();
        n.sort();
        n.dedup();
        n
    }
    pub fn sample(&mut self, j: J) {
        if self.samples.len() < 6 && !self.has_sample_like(&j) {
            self.samples.push(j);
        }
    }
    /// samples are kept diverse: one per (op, kind/mode)
    fn has_sample_like(&self, j: &J) -> bool {
        let sig = |j: &J| {
            format!(
                "{}|{}|{}",
                j.str_of("op").unwrap_or(""),
                j.str_of("kind").unwrap_or(""),
                j.str_of("mode").unwrap_or("")
            )
        };
        let s = sig(j);
        self.samples.iter().any(|x| sig(x) == s)
    }
    /// In-process merge (worker side): set members stay in hash sets so the
    /// side file written at the end contains them.
    pub fn merge(&mut self, other: Stats) {
        for (k, v) in other.counters {
            *self.counters.entry(k).or_insert(0) += v;
        }
        for (k, s) in other.sets {
            for d in s {
                self.mark(&k, d);
            }
        }
        for (k, s) in other.merged {
            for d in s {
                self.mark(&k, d);
            }
        }
        for s in other.samples {
            self.sample(s);
        }
        self.sim_time_us += other.sim_time_us;
        self.overflow += other.overflow;
    }

    /// Parent-side merge of a worker's statistics: set members are collected
    /// in vectors (sorted and de-duplicated by `finalize`).
    pub fn absorb(&mut self, other: Stats) {
        for (k, v) in other.counters {
            *self.counters.entry(k).or_insert(0) += v;
        }
        for (k, s) in other.sets {
            self.merged.entry(k).or_default().extend(s);
        }
        for (k, s) in other.merged {
            self.merged.entry(k).or_default().extend(s);
        }
        for s in other.samples {
            self.sample(s);
        }
        self.sim_time_us += other.sim_time_us;
        self.overflow += other.overflow;
    }

    /// Serialises counters and samples as JSON and sets as a binary side file.
    pub fn to_json(&self) -> J {
        let mut c = J::obj();
        for (k, v) in &self.counters {
            c.put(k, J::u(*v));
        }
        J::obj()
            .set("counters", c)
            .set("samples", J::Arr(self.samples.clone()))
            .set("sim_time_us", J::u(self.sim_time_us))
            .set("overflow", J::u(self.overflow))
    }
    pub fn from_json(j: &J) -> Result<Stats, String> {
        let mut s = Stats::new();
        if let Some(items) = j.get("counters").and_then(|c| c.as_obj()) {
            for (k, v) in items {
                s.counters.insert(k.clone(), v.as_u64().unwrap_or(0));
            }
        }
        if let Some(a) = j.get("samples").and_then(|c| c.as_arr()) {
            s.samples = a.clone();
        }
        s.sim_time_us = j.get("sim_time_us").and_then(|v| v.as_u64()).unwrap_or(0);
        s.overflow = j.get("overflow").and_then(|v| v.as_u64()).unwrap_or(0);
        Ok(s)
    }
    pub fn write_sets(&self, path: &std::path::Path) -> std::io::Result<()> {
        use std::io::Write;
        let mut f = std::io::BufWriter::new(std::fs::File::create(path)?);
        for (name, set) in &self.sets {
            let nb = name.as_bytes();
            f.write_all(&(nb.len() as u32).to_le_bytes())?;
            f.write_all(nb)?;
            f.write_all(&(set.len() as u64).to_le_bytes())?;
            let mut v: Vec<u64> = set.iter().copied().collect();
            v.sort_unstable();
            for d in v {
                f.write_all(&d.to_le_bytes())?;
            }
        }
        f.flush()
    }
    pub fn read_sets(&mut self, path: &std::path::Path) -> std::io::Result<()> {
        let data = std::fs::read(path)?;
        let mut i = 0usize;
        while i + 4 <= data.len() {
            let nl = u32::from_le_bytes(data[i..i + 4].try_into().unwrap()) as usize;
            i += 4;
            let name = String::from_utf8_lossy(&data[i..i + nl]).to_string();
            i += nl;
            let n = u64::from_le_bytes(data[i..i + 8].try_into().unwrap()) as usize;
            i += 8;
            let set = self.merged.entry(name).or_default();
            set.reserve(n);
            for _ in 0..n {
                set.push(u64::from_le_bytes(data[i..i + 8].try_into().unwrap()));
                i += 8;
            }
        }
        Ok(())
    }
}

/// A property violation with everything needed to replay it.
#[derive(Clone, Debug)]
pub struct Violation {
    pub property: String,
    /// stable violation class; the shrinker only keeps candidates of this class
    pub class: String,
    pub detail: String,
    /// self-contained, replayable case (explicit history / operation)
    pub case: J,
}

impl Violation {
    pub fn to_json(&self) -> J {
        J::obj()
            .set("property", J::s(&self.property))
            .set("class", J::s(&self.class))
            .set("detail", J::s(&self.detail))
            .set("case", self.case.clone())
    }
    pub fn from_json(j: &J) -> Result<Violation, String> {
        Ok(Violation {
            property: j.str_of("property")?.to_string(),
            class: j.str_of("class")?.to_string(),
            detail: j.str_of("detail")?.to_string(),
            case: j.get("case").cloned().ok_or("missing case")?,
        })
    }
}
