//! Minimal JSON value with writer and parser (evidence + replay files).

use std::fmt::Write as _;

#[derive(Clone, Debug, PartialEq)]
pub enum J {
    Null,
    Bool(bool),
    Int(i64),
    Num(f64),
    Str(String),
    Arr(Vec<J>),
    Obj(Vec<(String, J)>),
}

impl J {
    pub fn obj() -> J {
        J::Obj(Vec::new())
    }
    pub fn arr() -> J {
        J::Arr(Vec::new())
    }
    pub fn s(v: &str) -> J {
        J::Str(v.to_string())
    }
    pub fn u(v: u64) -> J {
        J::Int(v as i64)
    }
    pub fn set(mut self, k: &str, v: J) -> J {
        self.put(k, v);
        self
    }
    pub fn put(&mut self, k: &str, v: J) {
        if let J::Obj(items) = self {
            if let Some(e) = items.iter_mut().find(|(kk, _)| kk == k) {
                e.1 = v;
            } else {
                items.push((k.to_string(), v));
            }
        } else {
            panic!("put on non-object");
        }
    }
    pub fn push(&mut self, v: J) {
        if let J::Arr(items) = self {
            items.push(v);
        } else {
            panic!("push on non-array");
        }
    }
    pub fn get(&self, k: &str) -> Option<&J> {
        match self {
            J::Obj(items) => items.iter().find(|(kk, _)| kk == k).map(|e| &e.1),
            _ => None,
        }
    }
    pub fn as_str(&self) -> Option<&str> {
        match self {
            J::Str(s) => Some(s),
            _ => None,
        }
    }
    pub fn as_i64(&self) -> Option<i64> {
        match self {
            J::Int(i) => Some(*i),
            J::Num(f) => Some(*f as i64),
            _ => None,
        }
    }
    pub fn as_u64(&self) -> Option<u64> {
        self.as_i64().map(|v| v as u64)
    }
    pub fn as_bool(&self) -> Option<bool> {
        match self {
            J::Bool(b) => Some(*b),
            _ => None,
        }
    }
    pub fn as_arr(&self) -> Option<&Vec<J>> {
        match self {
            J::Arr(a) => Some(a),
            _ => None,
        }
    }
    pub fn as_obj(&self) -> Option<&Vec<(String, J)>> {
        match self {
            J::Obj(a) => Some(a),
            _ => None,
        }
    }
    pub fn str_of(&self, k: &str) -> Result<&str, String> {
        self.get(k)
            .and_then(|v| v.as_str())
            .ok_or_else(|| format!("missing string field '{k}'"))
    }
    pub fn u64_of(&self, k: &str) -> Result<u64, String> {
        self.get(k)
            .and_then(|v| v.as_u64())
            .ok_or_else(|| format!("missing integer field '{k}'"))
    }
    pub fn bool_of(&self, k: &str) -> Result<bool, String> {
        self.get(k)
            .and_then(|v| v.as_bool())
            .ok_or_else(|| format!("missing bool field '{k}'"))
    }
    pub fn arr_of(&self, k: &str) -> Result<&Vec<J>, String> {
        self.get(k)
            .and_then(|v| v.as_arr())
            .ok_or_else(|| format!("missing array field '{k}'"))
    }

    pub fn to_string(&self) -> String {
        let mut s = String::new();
        self.write(&mut s, None, 0);
        s
    }
    pub fn to_pretty(&self) -> String {
        let mut s = String::new();
        self.write(&mut s, Some(1), 0);
        s.push('\n');
        s
    }

    fn write(&self, out: &mut String, indent: Option<usize>, depth: usize) {
        let nl = |out: &mut String, d: usize| {
            if let Some(w) = indent {
                out.push('\n');
                for _ in 0..(d * w) {
                    out.push(' ');
                }
            }
        };
        match self {
            J::Null => out.push_str("null"),
            J::Bool(b) => out.push_str(if *b { "true" } else { "false" }),
            J::Int(i) => {
                let _ = write!(out, "{i}");
            }
            J::Num(f) => {
                if f.is_finite() {
                    let _ = write!(out, "{f:.6}");
                } else {
                    out.push_str("null");
                }
            }
            J::Str(s) => write_str(out, s),
            J::Arr(items) => {
                out.push('[');
                // short arrays of scalars stay on one line
                let scalar = items
                    .iter()
                    .all(|i| !matches!(i, J::Arr(_) | J::Obj(_)));
                for (i, it) in items.iter().enumerate() {
                    if i > 0 {
                        out.push(',');
                    }
                    if !scalar {
                        nl(out, depth + 1);
                    }
                    it.write(out, indent, depth + 1);
                }
                if !scalar && !items.is_empty() {
                    nl(out, depth);
                }
                out.push(']');
            }
            J::Obj(items) => {
                out.push('{');
                for (i, (k, v)) in items.iter().enumerate() {
                    if i > 0 {
                        out.push(',');
                    }
                    nl(out, depth + 1);
                    write_str(out, k);
                    out.push(':');
                    if indent.is_some() {
                        out.push(' ');
                    }
                    v.write(out, indent, depth + 1);
                }
                if !items.is_empty() {
                    nl(out, depth);
                }
                out.push('}');
            }
        }
    }

    pub fn parse(text: &str) -> Result<J, String> {
        let mut p = Parser {
            b: text.as_bytes(),
            i: 0,
        };
        p.ws();
        let v = p.value()?;
        p.ws();
        if p.i != p.b.len() {
            return Err(format!("trailing data at byte {}", p.i));
        }
        Ok(v)
    }
}

fn write_str(out: &mut String, s: &str) {
    out.push('"');
    for c in s.chars() {
        match c {
            '"' => out.push_str("\\\""),
            '\\' => out.push_str("\\\\"),
            '\n' => out.push_str("\\n"),
            '\r' => out.push_str("\\r"),
            '\t' => out.push_str("\\t"),
            c if (c as u32) < 0x20 => {
                let _ = write!(out, "\\u{:04x}", c as u32);
            }
            c => out.push(c),
        }
    }
    out.push('"');
}

struct Parser<'a> {
    b: &'a [u8],
    i: usize,
}

impl Parser<'_> {
    fn ws(&mut self) {
        while self.i < self.b.len() && matches!(self.b[self.i], b' ' | b'\n' | b'\r' | b'\t') {
            self.i += 1;
        }
    }
    fn value(&mut self) -> Result<J, String> {
        if self.i >= self.b.len() {
            return Err("unexpected end".into());
        }
        match self.b[self.i] {
            b'{' => {
                self.i += 1;
                let mut items = Vec::new();
                self.ws();
                if self.peek() == Some(b'}') {
                    self.i += 1;
                    return Ok(J::Obj(items));
                }
                loop {
                    self.ws();
                    let k = match self.value()? {
                        J::Str(s) => s,
                        _ => return Err("object key must be string".into()),
                    };
                    self.ws();
                    self.expect(b':')?;
                    self.ws();
                    let v = self.value()?;
                    items.push((k, v));
                    self.ws();
                    match self.peek() {
                        Some(b',') => self.i += 1,
                        Some(b'}') => {
                            self.i += 1;
                            return Ok(J::Obj(items));
                        }
                        _ => return Err(format!("expected , or }} at {}", self.i)),
                    }
                }
            }
            b'[' => {
                self.i += 1;
                let mut items = Vec::new();
                self.ws();
                if self.peek() == Some(b']') {
                    self.i += 1;
                    return Ok(J::Arr(items));
                }
                loop {
                    self.ws();
                    items.push(self.value()?);
                    self.ws();
                    match self.peek() {
                        Some(b',') => self.i += 1,
                        Some(b']') => {
                            self.i += 1;
                            return Ok(J::Arr(items));
                        }
                        _ => return Err(format!("expected , or ] at {}", self.i)),
                    }
                }
            }
            b'"' => {
                self.i += 1;
                let mut s = String::new();
                loop {
                    if self.i >= self.b.len() {
                        return Err("unterminated string".into());
                    }
                    let c = self.b[self.i];
                    self.i += 1;
                    match c {
                        b'"' => return Ok(J::Str(s)),
                        b'\\' => {
                            let e = *self.b.get(self.i).ok_or("bad escape")?;
                            self.i += 1;
                            match e {
                                b'n' => s.push('\n'),
                                b'r' => s.push('\r'),
                                b't' => s.push('\t'),
                                b'b' => s.push('\u{8}'),
                                b'f' => s.push('\u{c}'),
                                b'u' => {
                                    let h = std::str::from_utf8(
                                        self.b.get(self.i..self.i + 4).ok_or("bad \\u")?,
                                    )
                                    .map_err(|e| e.to_string())?;
                                    let cp = u32::from_str_radix(h, 16).map_err(|e| e.to_string())?;
                                    s.push(char::from_u32(cp).unwrap_or('?'));
                                    self.i += 4;
                                }
                                other => s.push(other as char),
                            }
                        }
                        _ => {
                            // copy raw utf-8 bytes
                            let start = self.i - 1;
                            let mut end = self.i;
                            while end < self.b.len() && self.b[end] != b'"' && self.b[end] != b'\\' {
                                end += 1;
                            }
                            s.push_str(
                                std::str::from_utf8(&self.b[start..end]).map_err(|e| e.to_string())?,
                            );
                            self.i = end;
                        }
                    }
                }
            }
            b't' => self.lit("true", J::Bool(true)),
            b'f' => self.lit("false", J::Bool(false)),
            b'n' => self.lit("null", J::Null),
            _ => {
                let start = self.i;
                while self.i < self.b.len()
                    && matches!(self.b[self.i], b'0'..=b'9' | b'-' | b'+' | b'.' | b'e' | b'E')
                {
                    self.i += 1;
                }
                let t = std::str::from_utf8(&self.b[start..self.i]).map_err(|e| e.to_string())?;
                if t.is_empty() {
                    return Err(format!("unexpected byte at {}", start));
                }
                if let Ok(i) = t.parse::<i64>() {
                    Ok(J::Int(i))
                } else {
                    t.parse::<f64>().map(J::Num).map_err(|e| e.to_string())
                }
            }
        }
    }
    fn peek(&self) -> Option<u8> {
        self.b.get(self.i).copied()
    }
    fn expect(&mut self, c: u8) -> Result<(), String> {
        if self.peek() == Some(c) {
            self.i += 1;
            Ok(())
        } else {
            Err(format!("expected '{}' at {}", c as char, self.i))
        }
    }
    fn lit(&mut self, word: &str, v: J) -> Result<J, String> {
        if self.b[self.i..].starts_with(word.as_bytes()) {
            self.i += word.len();
            Ok(v)
        } else {
            Err(format!("bad literal at {}", self.i))
        }
    }
}

pub fn hex(data: &[u8]) -> String {
    let mut s = String::with_capacity(data.len() * 2);
    for b in data {
        let _ = write!(s, "{b:02x}");
    }
    s
}

pub fn unhex(s: &str) -> Result<Vec<u8>, String> {
    if s.len() % 2 != 0 {
        return Err("odd hex length".into());
    }
    let b = s.as_bytes();
    let nib = |c: u8| -> Result<u8, String> {
        match c {
            b'0'..=b'9' => Ok(c - b'0'),
            b'a'..=b'f' => Ok(c - b'a' + 10),
            b'A'..=b'F' => Ok(c - b'A' + 10),
            _ => Err("bad hex digit".into()),
        }
    };
    let mut out = Vec::with_capacity(b.len() / 2);
    for p in b.chunks(2) {
        out.push(nib(p[0])? << 4 | nib(p[1])?);
    }
    Ok(out)
}
