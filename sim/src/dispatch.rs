//! Property id / case JSON -> engine.

use crate::iosim;
use crate::json::J;
use crate::prng::Digest;
use crate::stats::{Stats, Violation};

pub type Fail = (String, String);

/// Executes run `run` of `property`; returns violations and a digest of what
/// the run observed (used by the determinism self-test).
pub fn exec_run(
    property: &str,
    config: &str,
    seed: u64,
    run: u64,
    stats: &mut Stats,
) -> (Vec<Violation>, u64) {
    let keys = [
        "executions",
        "fault_fired.io_error",
        "fault_fired.zero_transfer",
        "fault_fired.eintr",
        "c16.fault_at_exact_byte",
        "c16.calls_after_fault",
        "c06.outcome.both-accept",
        "c06.outcome.both-len",
        "c06.outcome.both-content",
        "c06.outcome.both-reject-truncated",
        "fault_fired.reader_fault",
        "fault_fired.medium_damage",
    ];
    let before: Vec<u64> = keys.iter().map(|k| stats.get(k)).collect();
    let v = match property {
        "C16" => iosim::run_c16(seed, run, stats),
        "C06" => iosim::run_c06(seed, run, stats),
        "C01" => iosim::run_c01(seed, run, stats, config == "inspect"),
        "C11" => return crate::netsim::run_c11(seed, run, config, stats),
        other => panic!("harness: unknown property {other}"),
    };
    // per-run deltas only: the digest must not depend on which other runs
    // this worker process executed before
    let mut d = Digest::new();
    for (k, b) in keys.iter().zip(before.iter()) {
        d.u64(stats.get(k) - b);
    }
    for x in &v {
        d.str(&x.class);
        d.str(&x.case.to_string());
    }
    (v, d.finish())
}

/// Executes a self-contained case (replay / shrinking). Outer Err = harness
/// error (malformed case), inner Err = the case violates its property.
pub fn exec_case(case: &J) -> Result<Result<(), Fail>, String> {
    match case.str_of("engine")? {
        "iosim" => {
            let c = iosim::cases::Case::from_json(case)?;
            Ok(iosim::check_case_guarded(&c))
        }
        "netsim" => crate::netsim::exec_case(case),
        other => Err(format!("unknown engine '{other}'")),
    }
}

pub fn shrink_candidates(case: &J) -> Vec<J> {
    match case.str_of("engine") {
        Ok("iosim") => match iosim::cases::Case::from_json(case) {
            Ok(c) => c.shrink_candidates().iter().map(|c| c.to_json()).collect(),
            Err(_) => Vec::new(),
        },
        Ok("netsim") => crate::netsim::shrink_candidates(case),
        _ => Vec::new(),
    }
}

/// Specific signature of a (minimised) violation, used to match entries of
/// the known-findings file: engine-specific identifying fields + class.
pub fn signature(v: &Violation) -> String {
    match v.case.str_of("engine") {
        Ok("iosim") => format!(
            "iosim:{}:{}:{}",
            v.case.str_of("op").unwrap_or("?"),
            v.case
                .str_of("kind")
                .or_else(|_| v.case.str_of("config"))
                .unwrap_or("?"),
            v.class
        ),
        Ok("netsim") => crate::netsim::signature(v),
        _ => format!("unknown:{}", v.class),
    }
}
