//! Allocator seam: a wrapper around the system allocator that, when armed,
//! fails the next (re)allocation with alignment 1 - i.e. a `Vec<u8>` buffer.
//! Worker processes are single threaded, so a process-wide switch suffices
//! and no thread-local access happens inside the allocator.

use std::alloc::{GlobalAlloc, Layout, System};
use std::sync::atomic::{AtomicU32, AtomicU64, Ordering};

pub struct SeamAlloc;

/// number of align-1 allocations to fail (0 = disarmed)
static ARMED: AtomicU32 = AtomicU32::new(0);
/// align-1 allocation requests refused so far
static REFUSED: AtomicU64 = AtomicU64::new(0);

pub fn arm(n: u32) {
    ARMED.store(n, Ordering::SeqCst);
}

pub fn disarm() -> u32 {
    ARMED.swap(0, Ordering::SeqCst)
}

pub fn refused() -> u64 {
    REFUSED.load(Ordering::SeqCst)
}

#[inline]
fn should_fail(layout: &Layout) -> bool {
    if layout.align() != 1 {
        return false;
    }
    let a = ARMED.load(Ordering::Relaxed);
    if a == 0 {
        return false;
    }
    ARMED.store(a - 1, Ordering::Relaxed);
    REFUSED.fetch_add(1, Ordering::Relaxed);
    true
}

unsafe impl GlobalAlloc for SeamAlloc {
    unsafe fn alloc(&self, layout: Layout) -> *mut u8 {
        if should_fail(&layout) {
            return std::ptr::null_mut();
        }
        System.alloc(layout)
    }
    unsafe fn dealloc(&self, ptr: *mut u8, layout: Layout) {
        System.dealloc(ptr, layout)
    }
    unsafe fn alloc_zeroed(&self, layout: Layout) -> *mut u8 {
        if should_fail(&layout) {
            return std::ptr::null_mut();
        }
        System.alloc_zeroed(layout)
    }
    unsafe fn realloc(&self, ptr: *mut u8, layout: Layout, new_size: usize) -> *mut u8 {
        if should_fail(&layout) {
            return std::ptr::null_mut();
        }
        System.realloc(ptr, layout, new_size)
    }
}
