//! SplitMix64-seeded xoshiro256** generator. No external crate, no platform
//! dependence: one integer decides everything a run does.

#[derive(Clone, Debug)]
pub struct Rng {
    s: [u64; 4],
}

#[inline]
pub fn splitmix64(x: &mut u64) -> u64 {
    *x = x.wrapping_add(0x9E37_79B9_7F4A_7C15);
    let mut z = *x;
    z = (z ^ (z >> 30)).wrapping_mul(0xBF58_476D_1CE4_E5B9);
    z = (z ^ (z >> 27)).wrapping_mul(0x94D0_49BB_1331_11EB);
    z ^ (z >> 31)
}

/// Mixes several integers into one seed (order matters).
pub fn mix(parts: &[u64]) -> u64 {
    let mut h: u64 = 0x243F_6A88_85A3_08D3;
    for p in parts {
        let mut x = h ^ p.wrapping_mul(0x9E37_79B9_7F4A_7C15);
        h = splitmix64(&mut x).rotate_left(23) ^ 0x1319_8A2E_0370_7344;
    }
    let mut x = h;
    splitmix64(&mut x)
}

/// FNV-1a 64 over a byte string (used for digests, never for decisions).
pub fn fnv64(data: &[u8]) -> u64 {
    let mut h: u64 = 0xcbf2_9ce4_8422_2325;
    for b in data {
        h ^= u64::from(*b);
        h = h.wrapping_mul(0x0000_0100_0000_01B3);
    }
    h
}

#[derive(Clone, Debug)]
pub struct Digest(pub u64);

impl Digest {
    pub fn new() -> Digest {
        Digest(0xcbf2_9ce4_8422_2325)
    }
    #[inline]
    pub fn bytes(&mut self, data: &[u8]) {
        for b in data {
            self.0 ^= u64::from(*b);
            self.0 = self.0.wrapping_mul(0x0000_0100_0000_01B3);
        }
    }
    #[inline]
    pub fn u64(&mut self, v: u64) {
        self.bytes(&v.to_le_bytes());
    }
    #[inline]
    pub fn str(&mut self, s: &str) {
        self.bytes(s.as_bytes());
        self.bytes(&[0xff]);
    }
    pub fn finish(&self) -> u64 {
        let mut x = self.0;
        splitmix64(&mut x)
    }
}

impl Rng {
    pub fn new(seed: u64) -> Rng {
        let mut x = seed;
        let s = [
            splitmix64(&mut x),
            splitmix64(&mut x),
            splitmix64(&mut x),
            splitmix64(&mut x),
        ];
        Rng { s }
    }

    /// Independent sub-stream `n` of this generator's seed material (does not
    /// advance `self`), so adding draws to one stream never shifts another.
    pub fn sub(&self, n: u64) -> Rng {
        Rng::new(mix(&[self.s[0], self.s[1], self.s[2], self.s[3], n]))
    }

    #[inline]
    pub fn next_u64(&mut self) -> u64 {
        let result = self.s[1].wrapping_mul(5).rotate_left(7).wrapping_mul(9);
        let t = self.s[1] << 17;
        self.s[2] ^= self.s[0];
        self.s[3] ^= self.s[1];
        self.s[1] ^= self.s[2];
        self.s[0] ^= self.s[3];
        self.s[2] ^= t;
        self.s[3] = self.s[3].rotate_left(45);
        result
    }

    /// Uniform in 0..n (n > 0).
    #[inline]
    pub fn below(&mut self, n: u64) -> u64 {
        debug_assert!(n > 0);
        // multiply-shift; bias is irrelevant for simulation purposes
        ((u128::from(self.next_u64()) * u128::from(n)) >> 64) as u64
    }

    /// Uniform in lo..=hi.
    #[inline]
    pub fn range(&mut self, lo: u64, hi: u64) -> u64 {
        debug_assert!(lo <= hi);
        lo + self.below(hi - lo + 1)
    }

    #[inline]
    pub fn usize_range(&mut self, lo: usize, hi: usize) -> usize {
        self.range(lo as u64, hi as u64) as usize
    }

    #[inline]
    pub fn bool(&mut self) -> bool {
        self.next_u64() & 1 == 1
    }

    /// True with probability num/den.
    #[inline]
    pub fn chance(&mut self, num: u64, den: u64) -> bool {
        self.below(den) < num
    }

    /// f64 in [0,1).
    #[inline]
    pub fn unit(&mut self) -> f64 {
        (self.next_u64() >> 11) as f64 / (1u64 << 53) as f64
    }

    #[inline]
    pub fn prob(&mut self, p: f64) -> bool {
        self.unit() < p
    }

    /// Log-uniform in [lo, hi].
    pub fn log_uniform(&mut self, lo: f64, hi: f64) -> f64 {
        (lo.ln() + self.unit() * (hi.ln() - lo.ln())).exp()
    }

    #[inline]
    pub fn u8(&mut self) -> u8 {
        self.next_u64() as u8
    }
    #[inline]
    pub fn u16(&mut self) -> u16 {
        self.next_u64() as u16
    }
    #[inline]
    pub fn u32(&mut self) -> u32 {
        self.next_u64() as u32
    }

    pub fn fill(&mut self, buf: &mut [u8]) {
        for chunk in buf.chunks_mut(8) {
            let v = self.next_u64().to_le_bytes();
            chunk.copy_from_slice(&v[..chunk.len()]);
        }
    }

    pub fn bytes(&mut self, n: usize) -> Vec<u8> {
        let mut v = vec![0u8; n];
        self.fill(&mut v);
        v
    }

    pub fn array<const N: usize>(&mut self) -> [u8; N] {
        let mut a = [0u8; N];
        self.fill(&mut a);
        a
    }

    pub fn pick<'a, T>(&mut self, items: &'a [T]) -> &'a T {
        &items[self.below(items.len() as u64) as usize]
    }

    pub fn shuffle<T>(&mut self, items: &mut [T]) {
        for i in (1..items.len()).rev() {
            let j = self.below(i as u64 + 1) as usize;
            items.swap(i, j);
        }
    }

    /// Value biased to extremes: 1/4 min, 1/4 max, else uniform.
    pub fn edgy(&mut self, lo: u64, hi: u64) -> u64 {
        match self.below(4) {
            0 => lo,
            1 => hi,
            _ => self.range(lo, hi),
        }
    }
}
