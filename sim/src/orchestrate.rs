//! `sim run <property> <tier>`: plans the batches of a check, runs them,
//! triages crashes and violations, writes evidence, sets the exit code.
//!
//! Exit codes: 0 held on everything explored (known findings are printed as
//! KNOWN-FINDING lines), 1 VIOLATION printed, 2 harness error.

use crate::json::J;
use crate::runner::*;
use crate::stats::{Stats, Violation};
use std::time::Instant;

struct Plan {
    level: &'static str,
    batches: Vec<Batch>,
    rule: &'static str,
    assumptions: Vec<&'static str>,
    real: Vec<&'static str>,
    stub: Vec<&'static str>,
    model: Vec<&'static str>,
    exhaustive_note: &'static str,
}

fn env_u64(name: &str) -> Option<u64> {
    std::env::var(name).ok().and_then(|s| s.parse().ok())
}

fn plan_for(property: &str, tier: &str, seed: u64, workers: usize) -> Result<Plan, String> {
    let thorough = tier == "thorough";
    let runs = |quick: u64, deep: u64| env_u64("VERIF_RUNS").unwrap_or(if thorough { deep } else { quick });
    let cap = env_u64("VERIF_TIME_CAP_S").unwrap_or(if thorough { 1500 } else { 180 });
    let native = |config: &str, runs: u64| Batch {
        property: property.to_string(),
        config: config.to_string(),
        seed,
        runs,
        workers,
        launcher: Launcher::Native,
        time_cap_s: cap,
        digests: false,
    };
    let miri = |config: &str, runs: u64, procs: usize| Batch {
        property: property.to_string(),
        config: config.to_string(),
        seed,
        runs,
        workers: procs,
        launcher: Launcher::Miri,
        time_cap_s: cap,
        digests: false,
    };
    let asan = |config: &str, runs: u64| Batch {
        property: property.to_string(),
        config: config.to_string(),
        // other runs than the UB-check build executes
        seed: crate::prng::mix(&[seed, 0xa5a]),
        runs,
        workers,
        launcher: Launcher::Asan,
        time_cap_s: cap,
        digests: false,
    };
    let asan_on = env_u64("VERIF_ASAN").unwrap_or(1) != 0;
    let miri_runs = env_u64("VERIF_MIRI_RUNS");
    match property {
        "C16" => Ok(Plan {
            level: "fault_enumeration",
            batches: vec![native("enumerate", runs(150_000, 8_000_000))],
            rule: "values (header values, builder configurations, reader streams, LimitedReader op sequences) are drawn from the seed; for each value EVERY fault position is enumerated: writers - hard error and Ok(0) at every byte position 0..=|E| (encodings above 4096 bytes: first 2048 positions, all part boundaries +-1, 64 seeded positions); readers - hard error and end-of-stream at every call index of the operation under whole, 1-byte and seeded chunking; output slices - every length 0..=|E|+1. distinct_nontrivial counts distinct (operation kind, value digest, fault kind, position) tuples whose fault actually fired inside the operation (or: slice shorter than the encoding; LimitedReader sequence with at least one refused read)",
            assumptions: vec![
                "the fault-free run of the code under test defines the complete encoding / un-faulted result (C16 demands consistency with it, not its correctness - that is C08/C10)",
                "std::io::Read::read_exact and Write::write_all retry EINTR and short transfers as documented",
                "values are sampled by seed, positions inside a value are enumerated",
            ],
            real: vec!["every etherparse write/write_raw/write_to_slice/read*/skip_* function", "io::LimitedReader", "PacketBuilder (all six final steps x write, write_to_vec, write_to_slice)", "std read_exact/write_all"],
            stub: vec!["SimReader (Read+Seek)", "SimWriter (Write)", "SimSlice (canary region with guards)", "value generators"],
            model: vec!["fault-free reference run of the same operation", "LimitedReader budget model (max_len/read_len)"],
            exhaustive_note: "positions inside each sampled value: exhaustive (up to the stated size); values: sampled",
        }),
        "C06" => Ok(Plan {
            level: "exploration",
            batches: vec![native("compare", runs(1_500_000, 150_000_000))],
            rule: "per run one reader kind (26 reader entry points incl. read_limited / read_without_version / skip_* variants), one generated header stream plus 10 damaged copies (byte flips biased to the first 20 bytes, truncation at a seeded point), each decoded through the reader under whole / 1-byte / seeded short+EINTR / fixed-block transfers and compared with the slice decoder on the slice that holds the announced packet. distinct_nontrivial counts distinct (kind, stream digest, limit, ip number, transfer pattern) tuples where the medium was damaged or the header has a length-dependent second part (stream > 20 bytes)",
            assumptions: vec![
                "only the io::Read == from_slice clause of C06 is decided; the slice-vs-slice entry point equivalences are pure input relations (not applicable to this technique)",
                "numeric LenError fields are recorded (len_error_fields_equal) but not asserted - they are C07's subject",
                "on streams that end inside the header only 'both reject' is demanded (reader validates bytes as they arrive)",
            ],
            real: vec!["all 17 header types' read functions and variants", "their from_slice / *_in_slice twins", "io::LimitedReader"],
            stub: vec!["SimReader (short reads, EINTR)", "stream generators", "medium damage (flips, truncation)"],
            model: vec!["none - differential between two real entry points"],
            exhaustive_note: "sampled",
        }),
        "C01" => {
            let mut batches = vec![native("native", runs(1_000_000, 100_000_000))];
            if asan_on {
                batches.push(asan("native", runs(1_000_000, 50_000_000)));
            }
            let m = miri_runs.unwrap_or(if thorough { 4_800 } else { 208 });
            if m > 0 {
                batches.push(miri("inspect", m, 16));
            }
            Ok(Plan {
                level: "exploration",
                batches,
                rule: "per run one reader kind, one generated stream plus 6 damaged copies, each read under a clean plan, a short-read+EINTR plan and a hard fault / end-of-stream at each of the first 8 calls; the complete result (value or error) is rendered with Debug so every exposed byte is touched. Native configuration: build with debug assertions, overflow checks and core's unsafe-precondition checks (abort on violation). AddressSanitizer configuration: other runs of the same workload in an ASan build. Miri configuration: same kind of cases (fewer; typed ICMP messages and ARP size extremes walked through deterministically) with a reader that inspects its destination buffer before filling it. All configurations include a reader that at one call claims to have read more bytes than fit (a panic is accepted, undefined behaviour is not). distinct_nontrivial counts distinct (kind, stream digest, fault position, transfer pattern) tuples with a damaged medium or an injected reader fault",
                assumptions: vec![
                    "only the reader-based decoders of C01 are decided; slice-based decoders, accessors and placement independence are pure input properties (not applicable to this technique)",
                    "the native configuration detects only UB that trips a debug assertion, an overflow check or an unsafe-precondition check; Miri detects uninitialised reads, out-of-bounds and provenance errors on the (fewer) cases it runs",
                ],
                real: vec!["all reader-based decoders incl. read_limited / skip_* variants", "io::LimitedReader"],
                stub: vec!["SimReader (faults, buffer-inspecting in the Miri configuration)", "stream generators", "medium damage"],
                model: vec!["none - the oracle is absence of abort / signal / Miri diagnostic / panic"],
                exhaustive_note: "sampled",
            })
        }
        "C11" => {
            let mut batches = vec![
                native("clean", runs(40_000, 1_000_000)),
                native("faulty", runs(100_000, 3_000_000)),
                native("bulk", runs(30_000, 500_000)),
                native("buf", runs(100_000, 3_000_000)),
            ];
            if asan_on {
                batches.push(asan("faulty", runs(10_000, 600_000)));
                batches.push(asan("buf", runs(30_000, 1_000_000)));
            }
            let m = miri_runs.unwrap_or(if thorough { 96 } else { 0 });
            if m > 0 {
                batches.push(miri("miri", m, 16));
                batches.push(miri("buf-tiny", m, 16));
            }
            Ok(Plan {
                level: "exploration",
                batches,
                rule: "one run = one simulated capture session: 1-6 sender hosts emit datagrams cut into fragments, a simulated network drops / duplicates / delays (reorders) / corrupts / truncates / pads frames and retransmits datagrams with different cuts, Byzantine senders emit conflicting fragments, the capture node slices every frame with the real slicer and feeds the real IpDefragPool in lock-step with a reference reassembler, with evictions, buffer returns (own and foreign), restarts, checkpoint/rollback, allocation failures, clock jumps, capture-node stalls and network partitions; entry points from_ethernet / from_linux_sll / from_ether_type / from_ip with up to three VLAN tags and MACsec; configurations: clean (reordering, duplication, interleaving only), faulty (all fault kinds), bulk (multi-victim retain), buf (IpDefragBuf driven directly), a 'confetti' variant (one datagram in thousands of tiny fragments) in 1 of 120 runs, and a second pass of faulty and buf in an AddressSanitizer build (other seeds). distinct_nontrivial counts distinct run histories (digest of the complete receiver-side event log) in which at least two streams were interleaved or a fault fired while a stream was in flight",
                assumptions: vec![
                    "the reference reassembler (bitmap coverage, no range merging) is the specification of 'covered' and 'complete'",
                    "fragmentable parts that start with an extension header (IPv4 protocol 51, IPv6 next header 0/43/44/51/60) are not generated (DESIGN 6.4)",
                    "where several documented errors apply to a fragment, any applicable one is accepted; where two fragments carry different bytes for an offset, either is accepted",
                ],
                real: vec!["SlicedPacket::from_ethernet / from_ip / from_linux_sll", "IpDefragPool::{process_sliced_packet, retain, return_buf, clone, verif_stats}", "IpDefragBuf::{new, add, is_complete, end, sections, data, take_bufs}"],
                stub: vec!["sender hosts and frame encoder (harness-owned, no PacketBuilder)", "network (loss, duplication, delay, corruption, truncation, padding)", "simulated clock and eviction timer", "allocator switch"],
                model: vec!["reference reassembler (per stream: received intervals, end, max_end, per-byte delivered values)"],
                exhaustive_note: "sampled",
            })
        }
        other => Err(format!("no check for property '{other}'")),
    }
}

/// Rare conditions every run of the check is expected to reach; one that
/// stays at zero means the workload or fault mix has regressed.
pub fn expected_probes(property: &str) -> Vec<&'static str> {
    match property {
        "C11" => vec![
            "probe.completed_by_non_last_fragment",
            "probe.more_than_1024_simultaneous_streams",
            "probe.confetti_fragments",
            "probe.completed_by_overlapping_fragment",
            "probe.duplicate_before_completion",
            "probe.partial_overlap",
            "probe.fragment_after_completion_opens_new_stream",
            "probe.fragment_after_eviction_opens_new_stream",
            "probe.id_reuse_after_completion",
            "probe.id_reuse_after_eviction",
            "probe.id_reuse_while_stream_in_flight",
            "probe.recycled_buffer_larger_than_datagram",
            "probe.stream_grew_beyond_initial_capacity",
            "probe.conflicting_end_beyond_known_end",
            "probe.conflicting_end_last_before_received_data",
            "probe.conflicting_end_second_last_with_smaller_end",
            "probe.error_segment_too_big",
            "probe.error_unaligned",
            "probe.error_on_first_fragment_unaligned",
            "probe.error_on_first_fragment_segment_too_big",
            "probe.rollback_changed_stream_set",
            "probe.bulk_evict_multi_victim",
            "probe.active_streams_differ_only_in_channel",
            "probe.active_streams_differ_only_in_vlan_ids",
            "probe.active_streams_differ_only_in_protocol",
            "probe.active_streams_differ_only_in_identification",
            "probe.passthrough_non_fragment",
            "probe.streams_interleaved",
            "probe.buf_rejected_fragments",
            "probe.buf_recycled_with_stale_capacity",
            "probe.buf_three_or_more_sections",
            "fault_fired.allocation_failure",
            "fault_fired.eviction",
            "fault_fired.restart",
            "fault_fired.rollback",
            "fault_fired.drop",
            "fault_fired.bit_flip",
            "fault_fired.truncate",
        ],
        "C16" => vec![
            "fault_fired.io_error",
            "fault_fired.zero_transfer",
            "fault_fired.eintr",
            "c16.short_slice",
            "c16.limited.len_errors",
            "c16.stream_cut_inside_header",
            "c16.limited.continued_after_one_shot_error",
            "c16.fault_in_part1.tcp",
            "c16.fault_in_part1.ipv4",
            "c16.fault_in_part1.ip_auth",
            "c16.fault_in_part1.ipv6_raw_ext",
            "c16.fault_in_part2.ipv6_exts",
            "c16.fault_in_part2.ip_headers",
            "c16.build_fault_in_part5",
            "c16.fault_in_call4.arp.read",
            "c16.fault_in_call2.ipv4.read",
            "c16.fault_in_call2.ipv6.skip_header_extension",
            "c16.fault_in_call3.ip_headers.read",
        ],
        "C06" => vec![
            "c06.outcome.both-accept",
            "c06.outcome.both-content",
            "c06.outcome.both-len",
            "c06.outcome.both-reject-truncated",
            "c06.outcome.both-reject-order-confirmed",
        ],
        "C01" => vec!["fault_fired.reader_fault", "fault_fired.medium_damage"],
        _ => vec![],
    }
}

fn prefixed(stats: &Stats, prefix: &str) -> J {
    let mut o = J::obj();
    for (k, v) in &stats.counters {
        if let Some(rest) = k.strip_prefix(prefix) {
            o.put(rest, J::u(*v));
        }
    }
    o
}

fn others(stats: &Stats, skip: &[&str]) -> J {
    let mut o = J::obj();
    for (k, v) in &stats.counters {
        if !skip.iter().any(|p| k.starts_with(p)) {
            o.put(k, J::u(*v));
        }
    }
    o
}

pub fn run_main(property: &str, tier: &str) -> i32 {
    if tier != "quick" && tier != "thorough" {
        eprintln!("harness: tier must be quick or thorough");
        return 2;
    }
    let seed = seed_from_env();
    let workers = workers_from_env();
    println!("VERIF_SEED={seed} property={property} tier={tier} workers={workers}");
    let plan = match plan_for(property, tier, seed, workers) {
        Ok(p) => p,
        Err(e) => {
            eprintln!("harness: {e}");
            return 2;
        }
    };
    let t0 = Instant::now();
    let mut stats = Stats::new();
    let mut violations: Vec<(Violation, Option<u64>, String, Launcher)> = Vec::new();
    let mut harness_errors: Vec<String> = Vec::new();
    let mut configs = J::obj();
    let mut total_runs = 0u64;
    let mut requested_runs = 0u64;
    for b in &plan.batches {
        let bt = Instant::now();
        let r = run_batch(b);
        println!(
            "batch config={} launcher={:?} runs={}/{} executions={} violations={} crashes={} wall={:.1}s",
            b.config,
            b.launcher,
            r.runs_done,
            b.runs,
            r.stats.get("executions"),
            r.violations.len(),
            r.crashes.len(),
            bt.elapsed().as_secs_f64()
        );
        configs.put(
            &match b.launcher {
                Launcher::Miri => format!("miri/{}", b.config),
                Launcher::Asan => format!("asan/{}", b.config),
                Launcher::Native => b.config.clone(),
            },
            J::obj()
                .set("launcher", J::s(match b.launcher {
                    Launcher::Miri => "miri",
                    Launcher::Asan => "native + AddressSanitizer (nightly, release + debug-assertions + overflow-checks)",
                    Launcher::Native => "native (release + debug-assertions + overflow-checks + unsafe-precondition checks)",
                }))
                .set("runs_requested", J::u(b.runs))
                .set("runs_done", J::u(r.runs_done))
                .set("executions", J::u(r.stats.get("executions")))
                .set("violations", J::u((r.violations.len() + r.crashes.len()) as u64))
                .set("wall_s", J::Num(bt.elapsed().as_secs_f64())),
        );
        total_runs += r.runs_done;
        requested_runs += b.runs;
        harness_errors.extend(r.harness_errors);
        for (run, v) in r.violations {
            violations.push((v, run, b.config.clone(), b.launcher.clone()));
        }
        for (run, case, exit, stderr) in r.crashes {
            // re-execute the run alone, announcing every case, to learn which
            // case was in flight
            println!("worker died during run {run} ({exit}); re-executing that run in trace mode");
            let located = match case {
                Some(c) => Some((Some(c), exit.clone(), stderr.clone())),
                None => locate_crash(&b.launcher, &b.property, &b.config, b.seed, run),
            };
            match located {
                Some((Some(case), exit, stderr)) => {
                    violations.push((
                        Violation {
                            property: property.to_string(),
                            class: if exit.contains("(hang)") { "hang".to_string() } else { "crash".to_string() },
                            detail: format!("process died ({exit}): {}", crash_summary(&stderr)),
                            case,
                        },
                        Some(run),
                        b.config.clone(),
                        b.launcher.clone(),
                    ));
                }
                Some((None, exit, stderr)) => harness_errors.push(format!(
                    "run {run} of {} dies ({exit}) before any case is announced: {stderr}",
                    b.config
                )),
                None => harness_errors.push(format!(
                    "run {run} of {} died in the batch but not when re-executed alone (non-deterministic crash): {stderr}",
                    b.config
                )),
            }
        }
        stats.absorb(r.stats);
    }

    // crashes seen by AddressSanitizer or Miri are deterministic reports; a
    // native crash after memory corruption depends on the stack layout of the
    // process and may not replay (seeded change r8c_3), so for one signature
    // the sanitizer's instance is the one that gets minimised and persisted
    violations.sort_by_key(|(v, _, _, l)| {
        if v.class == "crash" && *l == Launcher::Native { 1u8 } else { 0u8 }
    });
    // minimise + persist (one per distinct signature, bounded)
    let mut findings: Vec<Finding> = Vec::new();
    let mut seen = std::collections::BTreeSet::new();
    for (v, run, config, launcher) in &violations {
        let pre_sig = format!("{}|{}", crate::dispatch::signature(v), v.class);
        if seen.contains(&pre_sig) || findings.len() >= 6 {
            continue;
        }
        seen.insert(pre_sig);
        match persist_violation(v, seed, *run, config, launcher) {
            Ok(f) => {
                // one replay file per distinct minimised signature
                let sig = crate::dispatch::signature(&f.violation);
                if findings.iter().any(|g| crate::dispatch::signature(&g.violation) == sig) {
                    let _ = std::fs::remove_file(&f.replay_path);
                } else {
                    findings.push(f);
                }
            }
            Err(e) => harness_errors.push(e),
        }
    }

    stats.finalize();
    let wall = t0.elapsed().as_secs_f64();
    let evaluations = stats.get("executions").max(total_runs);
    let nontrivial = stats.set_len("nontrivial");
    let unknown: Vec<&Finding> = findings.iter().filter(|f| f.known.is_none()).collect();
    let mut coverage = J::obj()
        .set("evaluations", J::u(evaluations))
        .set("distinct_nontrivial", J::u(nontrivial))
        .set("rule", J::s(plan.rule))
        .set("samples", J::Arr(stats.samples.clone()))
        .set("exhaustive", J::Bool(false))
        .set("enumeration", J::s(plan.exhaustive_note))
        .set("runs", J::u(total_runs))
        .set("runs_requested", J::u(requested_runs))
        .set(
            "runs_per_hour",
            J::u(if wall > 0.0 { (total_runs as f64 / wall * 3600.0) as u64 } else { 0 }),
        )
        .set(
            "seeds",
            J::obj()
                .set("verif_seed", J::s(&seed.to_string()))
                .set("derivation", J::s("run i uses mix(VERIF_SEED, engine, property, i); run indices 0..runs per configuration; AddressSanitizer batches use mix(VERIF_SEED, 0xa5a) in place of VERIF_SEED"))
                .set("count", J::u(total_runs)),
        )
        .set("simulated_time_s", J::Num(stats.sim_time_us as f64 / 1e6))
        .set("fault_fired", prefixed(&stats, "fault_fired."))
        .set("probes", prefixed(&stats, "probe."))
        .set("configurations", configs)
        .set(
            "components",
            J::obj()
                .set("real", J::Arr(plan.real.iter().map(|s| J::s(s)).collect()))
                .set("stub", J::Arr(plan.stub.iter().map(|s| J::s(s)).collect()))
                .set("model", J::Arr(plan.model.iter().map(|s| J::s(s)).collect())),
        )
        .set("counters", others(&stats, &["fault_fired.", "probe.", "executions", "runs"]));
    let mut distinct = J::obj();
    for name in stats.set_names() {
        distinct.put(&name, J::u(stats.set_len(&name)));
    }
    coverage.put("distinct_sets", distinct);
    coverage.put(
        "distinct_sets_meaning",
        J::s(match property {
            "C11" => "nontrivial: see rule; histories: digest of the complete receiver-side event log of a run (every operation, result and returned payload); arrival_order_patterns: permutation pattern (ranks of the start offsets) of the first 16 accepted fragments of each completed stream; cross_stream_interleavings: sequence of stream numbers (by first appearance) over all fragment deliveries of a run; abstract_pool_states: multiset over the active streams of (number of gaps capped at 7, end known), sampled every 16th delivery and at the end of a run",
            "C16" => "nontrivial: see rule; c16.parts: distinct (operation kind, part of the multi-part operation resp. call index) pairs in which a fault fired; c16.build_configs: distinct builder stackings (link/vlan/net/transport)",
            "C06" => "nontrivial: see rule; c06.kind_outcome: distinct (reader kind, outcome class) pairs",
            _ => "nontrivial: see rule",
        }),
    );
    coverage.put(
        "distinct_members_not_recorded",
        J::u(stats.overflow),
    );
    coverage.put(
        "distinct_counting",
        J::s("exact union over all worker processes; a worker stops recording members of a set beyond 1 500 000 entries (distinct_members_not_recorded > 0 means the distinct counts are lower bounds)"),
    );
    let mut fj = J::arr();
    for f in &findings {
        fj.push(
            J::obj()
                .set("class", J::s(&f.violation.class))
                .set("signature", J::s(&crate::dispatch::signature(&f.violation)))
                .set("replay", J::s(&path_display(&f.replay_path)))
                .set("known", J::Bool(f.known.is_some())),
        );
    }
    coverage.put("findings", fj);
    let evidence = J::obj()
        .set("property_id", J::s(property))
        .set("tier", J::s(tier))
        .set("seed", J::Int(seed as i64))
        .set("level", J::s(plan.level))
        .set("coverage", coverage)
        .set(
            "assumptions",
            J::Arr(plan.assumptions.iter().map(|s| J::s(s)).collect()),
        )
        .set("wall_s", J::Num(wall))
        .set("violations", J::u(unknown.len() as u64));
    if let Err(e) = write_evidence(property, &evidence) {
        harness_errors.push(e);
    }

    // coverage warnings never change the exit status
    for name in expected_probes(property) {
        if stats.get(name) == 0 {
            println!("WARNING probe={} never fired", name.trim_start_matches("probe."));
        }
    }
    if stats.get("harness.world_liveness_inconsistency") > 0 {
        println!(
            "WARNING harness: {} runs in which the world layer expected a datagram back that the reference model never completed (world-layer inconsistency, see DESIGN 10.2)",
            stats.get("harness.world_liveness_inconsistency")
        );
    }
    if total_runs < requested_runs {
        println!("NOTE time cap reached: {total_runs} of {requested_runs} runs executed");
    }
    println!(
        "property={property} tier={tier} runs={total_runs} evaluations={evaluations} distinct_nontrivial={nontrivial} wall={wall:.1}s"
    );
    for f in &findings {
        match &f.known {
            Some(text) => println!(
                "KNOWN-FINDING: property={} {} (signature {}, replay {})",
                f.violation.property,
                text,
                crate::dispatch::signature(&f.violation),
                path_display(&f.replay_path)
            ),
            None => {
                println!(
                    "violation class={} seed={} run={:?}: {}",
                    f.violation.class, f.seed, f.run, f.violation.detail
                );
                println!(
                    "VIOLATION property={} replay={}",
                    f.violation.property,
                    path_display(&f.replay_path)
                );
            }
        }
    }
    for e in &harness_errors {
        eprintln!("HARNESS-ERROR: {e}");
    }
    if !unknown.is_empty() {
        // confirmed, replayable violations take precedence; harness errors
        // next to them (typically crashes of a memory-corrupting tree that do
        // not reproduce deterministically) are listed above
        return 1;
    }
    if !harness_errors.is_empty() {
        return 2;
    }
    0
}

/// Determinism self-test: every run executed twice, in separate processes,
/// at worker counts 1 and 16; per-run digests must be identical. Also fails
/// on probes that stay at zero (coverage regression of the harness).
pub fn selftest_main(runs: Option<u64>) -> i32 {
    let seed = seed_from_env();
    let n = runs.unwrap_or(2_000);
    let mut bad = 0;
    for (property, configs) in [
        ("C11", vec!["clean", "faulty", "bulk", "buf"]),
        ("C16", vec!["enumerate"]),
        ("C06", vec!["compare"]),
        ("C01", vec!["native"]),
    ] {
        let mut union: std::collections::BTreeMap<String, u64> = Default::default();
        let nconf = configs.len();
        for (ci, config) in configs.into_iter().enumerate() {
            let n = if property == "C16" { n / 4 } else { n };
            let mut results = Vec::new();
            let bad_before = bad;
            for workers in [1usize, 16, 7] {
                let b = Batch {
                    property: property.to_string(),
                    config: config.to_string(),
                    seed,
                    runs: n,
                    workers,
                    launcher: Launcher::Native,
                    time_cap_s: 0,
                    digests: true,
                };
                let r = run_batch(&b);
                if !r.harness_errors.is_empty() || !r.crashes.is_empty() {
                    println!("selftest {property}/{config}: harness errors {:?} crashes {}", r.harness_errors, r.crashes.len());
                    bad += 1;
                }
                results.push((workers, r));
            }
            let base = &results[0].1.digests;
            for (w, r) in &results[1..] {
                if &r.digests != base {
                    let diff = base
                        .iter()
                        .zip(r.digests.iter())
                        .filter(|(a, b)| a != b)
                        .count();
                    println!(
                        "selftest {property}/{config}: digests differ between 1 and {w} workers ({diff} runs, {} vs {})",
                        base.len(),
                        r.digests.len()
                    );
                    bad += 1;
                }
            }
            // probes are expected over the union of a property's configurations
            let zero: Vec<&str> = Vec::new();
            for (k, v) in &results[0].1.stats.counters {
                *union.entry(k.clone()).or_insert(0u64) += *v;
            }
            if results[0].1.stats.get("harness.world_liveness_inconsistency") > 0 {
                println!("selftest {property}/{config}: world-layer liveness inconsistency");
                bad += 1;
            }
            println!(
                "selftest {property}/{config}: {} runs x 3 executions (1, 16, 7 workers), digests {}, zero probes: {:?}",
                base.len(),
                if bad == bad_before { "identical" } else { "DIFFER" },
                zero
            );
            if ci + 1 == nconf {
                let missing: Vec<&str> = expected_probes(property)
                    .into_iter()
                    .filter(|p| union.get(*p).copied().unwrap_or(0) == 0)
                    .collect();
                if !missing.is_empty() {
                    println!("selftest {property}: probes that never fired: {missing:?}");
                    bad += 1;
                }
            }
        }
    }
    if bad == 0 {
        println!("selftest: deterministic");
        0
    } else {
        2
    }
}
