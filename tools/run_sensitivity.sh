#!/bin/bash
# Runs every patch in a directory against the check of the property encoded
# in the patch name prefix (c11_ -> C11 ...). Prints one line per patch.
#   tools/run_sensitivity.sh <dir> [tier]
dir="${1:-sensitivity}"; tier="${2:-quick}"
cd "$(dirname "$0")/.."
for p in "$dir"/*.diff; do
  n="$(basename "$p" .diff)"
  prop="$(echo "$n" | cut -d_ -f1 | tr a-z A-Z)"
  out="$(tools/try_patch.sh "$p" "$prop" "$tier" 2>&1)"
  code=$?
  first="$(echo "$out" | grep -m1 -E '^violation class|^KNOWN|^HARNESS' | cut -c1-220)"
  echo "$n prop=$prop exit=$code :: $first"
  rm -rf /tmp/verif_mutant.*
done
./check build >/dev/null
