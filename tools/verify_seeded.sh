#!/bin/bash
# Confirms a sub-agent's mutation in its scratch worktree:
#   existing suite passes with the patch, demo fails with it, demo passes without.
#   tools/verify_seeded.sh <worktree> <n>
wt="$1"; n="$2"; d="$wt/_out/$n"
export CARGO_TARGET_DIR="$wt/target" CARGO_NET_OFFLINE=true
cd "$wt" || exit 2
git checkout -q -- . ; rm -f etherparse/tests/seed_demo.rs
git apply "$d/patch.diff" || { echo "$wt $n: patch does not apply"; exit 2; }
cargo test --workspace --offline >"$d/verify_suite.log" 2>&1; suite=$?
cp "$d/demo.rs" etherparse/tests/seed_demo.rs
cargo test -p etherparse --offline --test seed_demo >"$d/verify_demo_with.log" 2>&1; with=$?
git checkout -q -- .
cargo test -p etherparse --offline --test seed_demo >"$d/verify_demo_without.log" 2>&1; without=$?
rm -f etherparse/tests/seed_demo.rs
echo "$wt $n: suite_with_patch_exit=$suite demo_with_patch_exit=$with demo_without_patch_exit=$without"
