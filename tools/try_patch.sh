#!/bin/bash
# Applies a patch to /repo, runs one check against it, reverts the patch.
#   tools/try_patch.sh <patch.diff> <property> [quick|thorough]
# Evidence/replays of the mutant run go to a scratch directory (printed),
# the registered evidence under /verif/evidence is not touched.
# Exit code: that of the check (1 = the mutant was detected).
set -u
patch="$(readlink -f "$1")"; prop="$2"; tier="${3:-quick}"
cd "$(dirname "$0")/.."
if ! git -C /repo diff --quiet; then echo "tools/try_patch: /repo has uncommitted changes" >&2; exit 2; fi
out="$(mktemp -d /tmp/verif_mutant.XXXXXX)"
if ! git -C /repo apply "$patch"; then echo "tools/try_patch: patch does not apply" >&2; rm -rf "$out"; exit 2; fi
VERIF_OUT_DIR="$out" ./check "$prop" "$tier" >"$out/log" 2>&1
code=$?
git -C /repo checkout -- .
git -C /repo clean -fdq -- etherparse etherparse_proptest_generators >/dev/null 2>&1
grep -E "^(VIOLATION|violation class|KNOWN-FINDING|HARNESS-ERROR|property=)" "$out/log" | cut -c1-400 | head -8
echo "exit=$code out=$out"
exit $code
