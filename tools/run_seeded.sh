#!/bin/bash
# Regression over all seeded changes: applies each seeded/<id>/patch.diff and
# runs the quick check of its property (first word of meta.json "property").
#   tools/run_seeded.sh [ids...]
cd "$(dirname "$0")/.."
ids="$@"; [ -z "$ids" ] && ids="$(cd seeded && ls -d */ | tr -d /)"
for id in $ids; do
  prop="$(python3 -c "import json;print(json.load(open('seeded/$id/meta.json'))['property'].split()[0])")"
  status="$(python3 -c "import json;print(json.load(open('seeded/$id/meta.json')).get('status','detected'))")"
  # r3a_7 / r5b_7 are (also) C06 findings
  out="$(tools/try_patch.sh seeded/$id/patch.diff "$prop" quick 2>&1)"; code=$?
  first="$(echo "$out" | grep -m1 -E '^violation class' | cut -c1-120)"
  echo "$id prop=$prop recorded=$status exit=$code :: $first"
  rm -rf /tmp/verif_mutant.*
done
./check build >/dev/null
